// rainvc:pkg internal/metainfo
// rainvc:function internal/metainfo.NewInfoBytes
// rainvc:bound every directory made of a non-empty subset of the 7 relative paths [a.b, a/b, a/c.d, a0, b, ab/c, a-b/c] (127 layouts) with file sizes 1..40000 bytes derived from the path, piece length 16 KiB; plus each of the 7 as a single-file torrent; plus 3 trees in which one entry is a symbolic link to a file
package metainfo

// Bounded stand-in (filesystem walk and hashing, outside the generator's reach): a torrent
// the client creates from a directory verifies completely against that same directory: the
// file list of the created info, in its order, hashes piece by piece to the stored hashes.

import (
	"bytes"
	"crypto/sha1"
	"fmt"
	"os"
	"path/filepath"
	"testing"

	"github.com/cenkalti/rain/v2/internal/logger"
)

func TestRainvcBounded(t *testing.T) {
	rels := []string{"a.b", "a/b", "a/c.d", "a0", "b", "ab/c", "a-b/c"}
	content := func(rel string) []byte {
		n := 1
		for _, c := range []byte(rel) {
			n = (n*131 + int(c)) % 40000
		}
		n++
		b := make([]byte, n)
		for i := range b {
			b[i] = byte(i*7 + len(rel) + int(rel[0]))
		}
		return b
	}
	log := logger.New("rainvc")
	cases := 0
	verify := func(what, dataRoot string, infoBytes []byte) {
		cases++
		info, err := NewInfo(infoBytes, true, true)
		if err != nil {
			t.Fatalf("violation: %s: created info does not load: %v", what, err)
		}
		var stream bytes.Buffer
		for _, f := range info.Files {
			b, err := os.ReadFile(filepath.Join(dataRoot, f.Path))
			if err != nil {
				t.Fatalf("violation: %s: created info lists %q which does not exist under %q: %v", what, f.Path, dataRoot, err)
			}
			if int64(len(b)) != f.Length {
				t.Fatalf("violation: %s: created info says %q has %d bytes, the file has %d", what, f.Path, f.Length, len(b))
			}
			stream.Write(b)
		}
		data := stream.Bytes()
		if int64(len(data)) != info.Length {
			t.Fatalf("violation: %s: total length %d, files hold %d bytes", what, info.Length, len(data))
		}
		for i := uint32(0); i < info.NumPieces; i++ {
			lo := int(i) * int(info.PieceLength)
			hi := min(lo+int(info.PieceLength), len(data))
			sum := sha1.Sum(data[lo:hi])
			if !bytes.Equal(sum[:], info.PieceHash(i)) {
				t.Fatalf("violation: %s: piece %d of the created torrent does not verify against the directory it was created from (file order %v)", what, i, info.Files)
			}
		}
	}
	for mask := 1; mask < 1<<len(rels); mask++ {
		tmp := t.TempDir()
		dir := filepath.Join(tmp, "tor")
		var names []string
		for i, rel := range rels {
			if mask&(1<<i) == 0 {
				continue
			}
			names = append(names, rel)
			p := filepath.Join(dir, filepath.FromSlash(rel))
			if err := os.MkdirAll(filepath.Dir(p), 0o755); err != nil {
				t.Fatal(err)
			}
			if err := os.WriteFile(p, content(rel), 0o644); err != nil {
				t.Fatal(err)
			}
		}
		b, err := NewInfoBytes("", []string{dir}, false, 16384, "", log)
		if err != nil {
			t.Fatalf("violation: directory %v: creation failed: %v", names, err)
		}
		verify(fmt.Sprintf("directory %v", names), tmp, b)
	}
	// the same with one of the files reached through a symbolic link (to a file of the tree, to
	// a file outside it, of a size different from the length of the link text)
	for _, link := range []struct{ name, target string }{{"b.lnk", "a0"}, {"a/zz", "../a0"}, {"0first", "a/b"}} {
		tmp := t.TempDir()
		dir := filepath.Join(tmp, "tor")
		for _, rel := range []string{"a0", "a/b", "b"} {
			p := filepath.Join(dir, filepath.FromSlash(rel))
			if err := os.MkdirAll(filepath.Dir(p), 0o755); err != nil {
				t.Fatal(err)
			}
			if err := os.WriteFile(p, content(rel), 0o644); err != nil {
				t.Fatal(err)
			}
		}
		if err := os.Symlink(link.target, filepath.Join(dir, filepath.FromSlash(link.name))); err != nil {
			t.Skip(err)
		}
		b, err := NewInfoBytes("", []string{dir}, false, 16384, "", log)
		if err != nil {
			t.Fatalf("violation: directory with symlink %s -> %s: creation failed: %v", link.name, link.target, err)
		}
		verify(fmt.Sprintf("directory with symlink %s -> %s", link.name, link.target), tmp, b)
	}
	for _, rel := range rels {
		tmp := t.TempDir()
		p := filepath.Join(tmp, filepath.Base(filepath.FromSlash(rel)))
		if err := os.WriteFile(p, content(rel), 0o644); err != nil {
			t.Fatal(err)
		}
		b, err := NewInfoBytes("", []string{p}, false, 16384, "", log)
		if err != nil {
			t.Fatalf("violation: single file %q: creation failed: %v", rel, err)
		}
		verify(fmt.Sprintf("single file %q", rel), tmp, b)
	}
	fmt.Printf("RAINVC-BOUNDED cases=%d\n", cases)
}
