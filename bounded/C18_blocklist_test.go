// rainvc:pkg internal/blocklist
// rainvc:function internal/blocklist.(*Blocklist).Reload / Blocked, internal/blocklist/stree.(*Stree).Build / Contains (segment tree recursion)
// rainvc:bound segment tree: every list of 1..3 ranges [a,b] (a <= b) over the domain 0..6 shifted to three bases (0, 1000, 2^32-7), every query point of the shifted domain plus both neighbours (incl. 0 and 2^32-1); blocklist: every list of 1..2 CIDR rules from 40 rules (prefix lengths 0,1,7,8,9,24,31,32 at bases 0.0.0.0, 10.0.0.0, 127.255.255.255, 192.168.1.77, 255.255.255.255), queried at the first and last address of every rule and their neighbours, against net.IPNet.Contains; a reload replaces the list
package blocklist

// Bounded stand-in (the segment tree is a recursive pointer structure and the CIDR range is
// computed with bit operations on variables, both outside the generator's reach): an address is
// blocked exactly when it lies in at least one range of the list that was loaded last.

import (
	"fmt"
	"net"
	"strings"
	"testing"

	"github.com/cenkalti/rain/v2/internal/blocklist/stree"
)

func TestRainvcBounded(t *testing.T) {
	cases := 0
	// ---- segment tree against a linear scan ----
	type rng struct{ a, b uint32 }
	var all []rng
	for a := uint32(0); a <= 6; a++ {
		for b := a; b <= 6; b++ {
			all = append(all, rng{a, b})
		}
	}
	checkTree := func(base uint32, list []rng) {
		cases++
		var tr stree.Stree
		for _, r := range list {
			tr.AddRange(stree.ValueType(base+r.a), stree.ValueType(base+r.b))
		}
		tr.Build()
		var points []uint32
		for v := uint32(0); v <= 6; v++ {
			points = append(points, base+v)
		}
		points = append(points, base-1, base+7, 0, 1, 0xffffffff, 0xfffffffe)
		for _, v := range points {
			want := false
			for _, r := range list {
				if base+r.a <= v && v <= base+r.b {
					want = true
				}
			}
			if got := tr.Contains(stree.ValueType(v)); got != want {
				t.Fatalf("violation: ranges %v at base %d: Contains(%d) = %v, want %v", list, base, v, got, want)
			}
		}
	}
	for _, base := range []uint32{0, 1000, 0xffffffff - 6} {
		for i := range all {
			checkTree(base, []rng{all[i]})
			for j := range all {
				checkTree(base, []rng{all[i], all[j]})
				if base == 0 || (i+j)%3 == 0 { // the full cube at base 0, a third of it elsewhere
					for k := range all {
						checkTree(base, []rng{all[i], all[j], all[k]})
					}
				}
			}
		}
	}
	// ---- blocklist against net.IPNet ----
	var rules []string
	for _, ip := range []string{"0.0.0.0", "10.0.0.0", "127.255.255.255", "192.168.1.77", "255.255.255.255"} {
		for _, l := range []int{0, 1, 7, 8, 9, 24, 31, 32} {
			rules = append(rules, fmt.Sprintf("%s/%d", ip, l))
		}
	}
	u32 := func(ip net.IP) uint32 {
		ip = ip.To4()
		return uint32(ip[0])<<24 | uint32(ip[1])<<16 | uint32(ip[2])<<8 | uint32(ip[3])
	}
	toIP := func(v uint32) net.IP { return net.IPv4(byte(v>>24), byte(v>>16), byte(v>>8), byte(v)) }
	bl := New()
	checkList := func(list []string) {
		cases++
		n, err := bl.Reload(strings.NewReader("# comment\n" + strings.Join(list, "\n") + "\n"))
		if err != nil || n != len(list) {
			t.Fatalf("violation: rules %v: Reload = %d, %v", list, n, err)
		}
		var nets []*net.IPNet
		var points []uint32
		for _, r := range list {
			_, ipn, err := net.ParseCIDR(r)
			if err != nil {
				t.Fatal(err)
			}
			nets = append(nets, ipn)
			first := u32(ipn.IP)
			last := first | ^u32(net.IP(ipn.Mask))
			points = append(points, first, first-1, first+1, last, last+1, last-1)
		}
		points = append(points, 0, 0xffffffff, 0x7fffffff, 0x80000000)
		for _, v := range points {
			ip := toIP(v)
			want := false
			for _, ipn := range nets {
				if ipn.Contains(ip) {
					want = true
				}
			}
			if got := bl.Blocked(ip); got != want {
				t.Fatalf("violation: rules %v: Blocked(%s) = %v, want %v", list, ip, got, want)
			}
		}
		if bl.Blocked(net.ParseIP("2001:db8::1")) {
			t.Fatalf("violation: rules %v: an IPv6 address is reported blocked", list)
		}
	}
	for i := range rules {
		checkList([]string{rules[i]})
		for j := range rules {
			checkList([]string{rules[i], rules[j]})
		}
	}
	fmt.Printf("RAINVC-BOUNDED cases=%d\n", cases)
}
