// rainvc:pkg torrent
// rainvc:function torrent.(*Torrent).AddTracker / torrent.(*Session).loadExistingTorrents (resume round trip of the tracker list)
// rainvc:bound sessions holding the sample torrent added from file or from a magnet link, each with 0..3 trackers added afterwards in every order of 3 URLs (2 x 16 histories), restarted once and twice
package torrent

// Bounded stand-in (bbolt transactions and JSON codecs are library code, outside the generator's
// reach): after a restart a torrent reappears with the same id, info-hash, name, port and
// trackers, including trackers added after the torrent was created.

import (
	"fmt"
	"os"
	"reflect"
	"testing"
)

func TestRainvcBounded(t *testing.T) {
	urls := []string{"http://127.0.0.1:1/a/announce", "udp://127.0.0.1:2", "http://127.0.0.1:3/c/announce?x=1"}
	var orders [][]int
	orders = append(orders, nil)
	for i := range urls {
		orders = append(orders, []int{i})
		for j := range urls {
			if j == i {
				continue
			}
			orders = append(orders, []int{i, j})
			for k := range urls {
				if k != i && k != j {
					orders = append(orders, []int{i, j, k})
				}
			}
		}
	}
	trackerURLs := func(tor *Torrent) []string {
		tor.Stats() // round trip through the torrent's run loop: earlier AddTrackers commands are done
		var out []string
		for _, tr := range tor.torrent.trackers {
			out = append(out, tr.URL())
		}
		return out
	}
	cases := 0
	for _, viaMagnet := range []bool{false, true} {
		for _, order := range orders {
			cases++
			tmp := t.TempDir()
			cfg := DefaultConfig
			cfg.Database = tmp + "/session.db"
			cfg.DataDir = tmp
			cfg.DHTEnabled = false
			cfg.PEXEnabled = false
			cfg.RPCEnabled = false
			cfg.Host = "127.0.0.1"
			s, err := NewSession(cfg)
			if err != nil {
				t.Fatal(err)
			}
			var tor *Torrent
			opt := &AddTorrentOptions{Stopped: true}
			if viaMagnet {
				tor, err = s.AddURI(torrentMagnetLink, opt)
			} else {
				var f *os.File
				f, err = os.Open(torrentFile)
				if err == nil {
					tor, err = s.AddTorrent(f, opt)
					f.Close()
				}
			}
			if err != nil {
				t.Fatal(err)
			}
			for _, i := range order {
				if err := tor.AddTracker(urls[i]); err != nil {
					t.Fatalf("AddTracker(%q): %v", urls[i], err)
				}
			}
			id, ih, name, port, want := tor.ID(), tor.InfoHash(), tor.Name(), tor.Port(), trackerURLs(tor)
			if len(want) < len(order) {
				t.Fatalf("violation: torrent has trackers %q after adding %d", want, len(order))
			}
			what := fmt.Sprintf("torrent added via magnet=%v, trackers added %v", viaMagnet, order)
			for restart := 1; restart <= 2; restart++ {
				if err := s.Close(); err != nil {
					t.Fatal(err)
				}
				s, err = NewSession(cfg)
				if err != nil {
					t.Fatal(err)
				}
				again := s.GetTorrent(id)
				if again == nil {
					t.Fatalf("violation: %s: torrent %s is gone after restart %d", what, id, restart)
				}
				if again.InfoHash() != ih || again.Name() != name || again.Port() != port {
					t.Fatalf("violation: %s: after restart %d info-hash/name/port are %v %q %d, were %v %q %d", what, restart, again.InfoHash(), again.Name(), again.Port(), ih, name, port)
				}
				if got := trackerURLs(again); !reflect.DeepEqual(got, want) {
					t.Fatalf("violation: %s: trackers after restart %d are %q, before the restart %q", what, restart, got, want)
				}
			}
			if err := s.Close(); err != nil {
				t.Fatal(err)
			}
		}
	}
	fmt.Printf("RAINVC-BOUNDED cases=%d\n", cases)
}
