// rainvc:pkg internal/magnet
// rainvc:function internal/magnet.(*Magnet).String / internal/magnet.New
// rainvc:bound names: every string of length 0..3 over the 10 characters [a ' ' + & = % # / ? é]; trackers: every assignment of 0..3 tiers with 1..2 URLs each drawn from 4 URLs containing query and escape characters; peers: 6 lists of 0..5 host:port strings, among them an IPv6 zone (percent sign), and hosts containing & # space + = and a non-ASCII letter
package magnet

// Bounded stand-in (URL escaping and parsing are library string code, outside the
// generator's reach): a magnet link exported by String parses back with New to the same
// info-hash, name, tracker tiers (each tier as a set) and peers.

import (
	"fmt"
	"sort"
	"testing"
)

func TestRainvcBounded(t *testing.T) {
	alphabet := []string{"a", " ", "+", "&", "=", "%", "#", "/", "?", "é"}
	var names []string
	var gen func(prefix string, n int)
	gen = func(prefix string, n int) {
		names = append(names, prefix)
		if n == 0 {
			return
		}
		for _, c := range alphabet {
			gen(prefix+c, n-1)
		}
	}
	gen("", 3)
	urls := []string{"http://t.example/announce", "udp://t.example:6969/announce?x=1&y=a+b", "http://t.example/a%20b/announce", "https://[::1]:8080/announce#frag"}
	var tierSets [][][]string
	tierSets = append(tierSets, nil)
	var tiers [][]string
	for i := range urls {
		tiers = append(tiers, []string{urls[i]})
		for j := i + 1; j < len(urls); j++ {
			tiers = append(tiers, []string{urls[i], urls[j]})
		}
	}
	for _, a := range tiers {
		tierSets = append(tierSets, [][]string{a})
		for _, b := range tiers[:4] {
			tierSets = append(tierSets, [][]string{a, b})
		}
	}
	tierSets = append(tierSets, [][]string{tiers[1], tiers[0], tiers[5]})
	peerSets := [][]string{nil, {"1.2.3.4:5"}, {"1.2.3.4:5", "[::1]:80"}, {"[fe80::1%eth0]:6881"}, {"peer.example.com:6881", "a&b.example:1"}, {"h#x:1", "h x:2", "h+x:3", "h=x:4", "é:5"}}
	asSet := func(s []string) string {
		c := append([]string(nil), s...)
		sort.Strings(c)
		return fmt.Sprintf("%q", c)
	}
	cases := 0
	check := func(m Magnet) {
		cases++
		link := m.String()
		got, err := New(link)
		if err != nil {
			t.Fatalf("violation: exported link %q (from %+v) does not parse: %v", link, m, err)
		}
		if got.InfoHash != m.InfoHash || got.Name != m.Name {
			t.Fatalf("violation: exported link %q parses back to info-hash %x name %q, exported %x %q", link, got.InfoHash, got.Name, m.InfoHash, m.Name)
		}
		if len(got.Trackers) != len(m.Trackers) {
			t.Fatalf("violation: exported link %q parses back to %d tiers, exported %d (%q)", link, len(got.Trackers), len(m.Trackers), m.Trackers)
		}
		for i := range m.Trackers {
			if asSet(got.Trackers[i]) != asSet(m.Trackers[i]) {
				t.Fatalf("violation: exported link %q: tier %d parses back to %q, exported %q", link, i, got.Trackers[i], m.Trackers[i])
			}
		}
		if fmt.Sprintf("%q", got.Peers) != fmt.Sprintf("%q", m.Peers) {
			t.Fatalf("violation: exported link %q: peers parse back to %q, exported %q", link, got.Peers, m.Peers)
		}
	}
	var ih [20]byte
	for i := range ih {
		ih[i] = byte(i*13 + 1)
	}
	for _, n := range names {
		check(Magnet{InfoHash: ih, Name: n})
		check(Magnet{InfoHash: ih, Name: n, Trackers: [][]string{tiers[1]}, Peers: peerSets[1]})
	}
	for _, ts := range tierSets {
		for _, ps := range peerSets {
			check(Magnet{InfoHash: ih, Name: "a b+c&d", Trackers: ts, Peers: ps})
		}
	}
	fmt.Printf("RAINVC-BOUNDED cases=%d\n", cases)
}
