// rainvc:pkg internal/resumer/boltdbresumer
// rainvc:function internal/resumer/boltdbresumer.(*Resumer).Write / Read / WriteInfo / WriteBitfield / WriteStarted / HandleStopAfterDownload / HandleStopAfterMetadata / WriteCompleteCmdRun
// rainvc:bound a base Spec and, one field at a time, every value of a per-field list of boundary values (ports 0/1/65535, counters 0/1/MaxInt64, durations 0/1ns/1h1m1.5s/MaxInt64, all five booleans, empty/unicode/quoted names, 0..3 tracker tiers, nil/empty/binary byte strings of 1..300 bytes, times with and without zone offsets and with nanoseconds, tracker / web-seed / peer strings that are not valid UTF-8); each written with Write and read back, then each partial writer applied to each and read back
package boltdbresumer

// Bounded stand-in (bbolt, JSON and strconv codecs are library code, outside the generator's
// reach): every value stored in resume data reads back equal to what was written, and each
// partial writer changes exactly its own fields.

import (
	"bytes"
	"fmt"
	"math"
	"path/filepath"
	"reflect"
	"testing"
	"time"
	"unicode/utf8"

	"go.etcd.io/bbolt"
)

func allValidUTF8(s Spec) bool {
	for _, tier := range s.Trackers {
		for _, u := range tier {
			if !utf8.ValidString(u) {
				return false
			}
		}
	}
	for _, l := range [][]string{s.URLList, s.FixedPeers} {
		for _, u := range l {
			if !utf8.ValidString(u) {
				return false
			}
		}
	}
	return true
}

func TestRainvcBounded(t *testing.T) {
	db, err := bbolt.Open(filepath.Join(t.TempDir(), "resume.db"), 0o600, nil)
	if err != nil {
		t.Fatal(err)
	}
	defer db.Close()
	res, err := New(db, []byte("torrents"))
	if err != nil {
		t.Fatal(err)
	}
	bin := func(n int) []byte {
		b := make([]byte, n)
		for i := range b {
			b[i] = byte(i*37 + n)
		}
		return b
	}
	base := func() Spec {
		return Spec{InfoHash: bin(20), Port: 50000, Name: "name", Trackers: [][]string{{"http://a/announce"}}, URLList: []string{"http://w/"},
			FixedPeers: []string{"1.2.3.4:5"}, Info: bin(40), Bitfield: bin(3), AddedAt: time.Date(2024, 2, 29, 23, 59, 58, 0, time.UTC),
			BytesDownloaded: 10, BytesUploaded: 20, BytesWasted: 30, SeededFor: time.Minute, Started: true, Version: LatestVersion}
	}
	var specs []Spec
	specs = append(specs, base())
	vary := func(f func(s *Spec)) { s := base(); f(&s); specs = append(specs, s) }
	for _, v := range []int{0, 1, 65535} {
		vary(func(s *Spec) { s.Port = v })
	}
	for _, v := range []int64{0, 1, math.MaxInt64} {
		vary(func(s *Spec) { s.BytesDownloaded = v })
		vary(func(s *Spec) { s.BytesUploaded = v })
		vary(func(s *Spec) { s.BytesWasted = v })
	}
	for _, v := range []time.Duration{0, 1, time.Hour + time.Minute + 1500*time.Millisecond, math.MaxInt64} {
		vary(func(s *Spec) { s.SeededFor = v })
	}
	for _, v := range []bool{false, true} {
		vary(func(s *Spec) { s.Started = v })
		vary(func(s *Spec) { s.StopAfterDownload = v })
		vary(func(s *Spec) { s.StopAfterMetadata = v })
		vary(func(s *Spec) { s.CompleteCmdRun = v })
		vary(func(s *Spec) { s.Sequential = v })
	}
	for _, v := range []string{"", "a b", "ünï©ode \"quoted\" \\ / \x00", "true", "0"} {
		vary(func(s *Spec) { s.Name = v })
	}
	for _, v := range [][][]string{nil, {}, {{"u1"}}, {{"u1", "u2"}, {"u3"}}, {{"http://x/?a=1&b=\"2\""}, {"udp://y:1"}, {"z"}}} {
		vary(func(s *Spec) { s.Trackers = v })
	}
	for _, v := range [][]string{nil, {}, {"http://w1/"}, {"http://w1/", "http://w2/a b"}} {
		vary(func(s *Spec) { s.URLList = v })
		vary(func(s *Spec) { s.FixedPeers = v })
	}
	for _, n := range []int{0, 1, 20, 300} {
		vary(func(s *Spec) { s.Info = bin(n) })
		vary(func(s *Spec) { s.Bitfield = bin(n) })
	}
	vary(func(s *Spec) { s.Info = nil })
	vary(func(s *Spec) { s.Bitfield = nil })
	// strings that JSON cannot carry unchanged: the record must either refuse them or give them back
	for _, v := range [][][]string{{{"http://h/ann\xffounce"}}, {{"http://ok/"}, {"udp://\xc3\x28:1"}}} {
		vary(func(s *Spec) { s.Trackers = v })
	}
	for _, v := range [][]string{{"http://w/\xff"}, {"ok", "\xfe\xfe"}} {
		vary(func(s *Spec) { s.URLList = v })
		vary(func(s *Spec) { s.FixedPeers = v })
	}
	vary(func(s *Spec) { s.AddedAt = time.Date(2024, 2, 29, 23, 59, 58, 123456789, time.UTC) })
	for _, v := range []time.Time{time.Unix(0, 0).UTC(), time.Date(2030, 12, 31, 0, 0, 0, 0, time.FixedZone("x", 3*3600+1800)), time.Date(1999, 1, 1, 12, 0, 0, 0, time.FixedZone("y", -8*3600))} {
		vary(func(s *Spec) { s.AddedAt = v })
	}
	norm := func(s Spec) Spec {
		// representations that are equal as values: nil and empty, instants in different zones
		if len(s.Trackers) == 0 {
			s.Trackers = nil
		}
		if len(s.URLList) == 0 {
			s.URLList = nil
		}
		if len(s.FixedPeers) == 0 {
			s.FixedPeers = nil
		}
		if len(s.Info) == 0 {
			s.Info = nil
		}
		if len(s.Bitfield) == 0 {
			s.Bitfield = nil
		}
		s.AddedAt = s.AddedAt.UTC()
		if s.Version == 0 {
			s.Version = LatestVersion
		}
		return s
	}
	cases := 0
	readBack := func(what, id string, want Spec) {
		cases++
		got, err := res.Read(id)
		if err != nil {
			t.Fatalf("violation: %s: cannot read back: %v", what, err)
		}
		g, w := norm(*got), norm(want)
		if !g.AddedAt.Equal(w.AddedAt) {
			t.Fatalf("violation: %s: AddedAt reads back %v, written %v", what, g.AddedAt, w.AddedAt)
		}
		g.AddedAt, w.AddedAt = time.Time{}, time.Time{}
		if !bytes.Equal(g.InfoHash, w.InfoHash) || !reflect.DeepEqual(g, w) {
			t.Fatalf("violation: %s: read back\n %+v\nwritten\n %+v", what, g, w)
		}
	}
	for i, s := range specs {
		id := fmt.Sprintf("t%d", i)
		if err := res.Write(id, &s); err != nil {
			if !allValidUTF8(s) {
				continue // refused: what cannot be stored unchanged is not stored
			}
			t.Fatalf("violation: spec %d: write failed: %v", i, err)
		}
		readBack(fmt.Sprintf("spec %d after Write", i), id, s)
		// partial writers change exactly their own fields
		want := s
		want.Info = bin(77)
		if err := res.WriteInfo(id, want.Info); err != nil {
			t.Fatal(err)
		}
		readBack(fmt.Sprintf("spec %d after WriteInfo", i), id, want)
		want.Bitfield = bin(9)
		if err := res.WriteBitfield(id, want.Bitfield); err != nil {
			t.Fatal(err)
		}
		readBack(fmt.Sprintf("spec %d after WriteBitfield", i), id, want)
		want.Started = !want.Started
		if err := res.WriteStarted(id, want.Started); err != nil {
			t.Fatal(err)
		}
		readBack(fmt.Sprintf("spec %d after WriteStarted", i), id, want)
		want.CompleteCmdRun = true
		if err := res.WriteCompleteCmdRun(id); err != nil {
			t.Fatal(err)
		}
		readBack(fmt.Sprintf("spec %d after WriteCompleteCmdRun", i), id, want)
		want.Started, want.StopAfterDownload = false, false
		if err := res.HandleStopAfterDownload(id); err != nil {
			t.Fatal(err)
		}
		readBack(fmt.Sprintf("spec %d after HandleStopAfterDownload", i), id, want)
		want.Started, want.StopAfterMetadata = false, false
		if err := res.HandleStopAfterMetadata(id); err != nil {
			t.Fatal(err)
		}
		readBack(fmt.Sprintf("spec %d after HandleStopAfterMetadata", i), id, want)
	}
	fmt.Printf("RAINVC-BOUNDED cases=%d\n", cases)
}
