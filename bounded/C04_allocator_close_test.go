// rainvc:pkg internal/allocator
// rainvc:function internal/allocator.(*Allocator).Run
// rainvc:bound torrents of 1..6 files (padding files at every subset of positions for n<=3), the allocator closed while it is inside the k-th Open for every k, or not closed, or failing at the k-th Open
package allocator

// Bounded stand-in (Run hands its result over in a deferred select, which the generator does
// not follow): when the allocator's result is not delivered - it was closed first, or the
// allocation failed - no file it opened is left open; when the result is delivered without
// error every file is still open (the receiver owns them).

import (
	"errors"
	"fmt"
	"sync"
	"testing"

	"github.com/cenkalti/rain/v2/internal/metainfo"
	"github.com/cenkalti/rain/v2/internal/storage"
)

type rainvcFile struct {
	sto *rainvcStorage
}

func (f *rainvcFile) ReadAt(p []byte, off int64) (int, error)  { return len(p), nil }
func (f *rainvcFile) WriteAt(p []byte, off int64) (int, error) { return len(p), nil }
func (f *rainvcFile) Close() error {
	f.sto.mu.Lock()
	f.sto.open--
	f.sto.mu.Unlock()
	return nil
}

type rainvcStorage struct {
	mu      sync.Mutex
	open    int
	opens   int
	failAt  int           // fail the k-th Open (1-based), 0: never
	blockAt int           // the k-th Open waits for release
	inside  chan struct{} // signalled when the blocking Open is entered
	release chan struct{}
}

func (s *rainvcStorage) RootDir() string { return "/" }
func (s *rainvcStorage) Open(name string, size int64) (storage.File, bool, error) {
	s.mu.Lock()
	s.opens++
	k := s.opens
	s.mu.Unlock()
	if k == s.blockAt {
		s.inside <- struct{}{}
		<-s.release
	}
	if k == s.failAt {
		return nil, false, errors.New("open failed")
	}
	s.mu.Lock()
	s.open++
	s.mu.Unlock()
	return &rainvcFile{sto: s}, false, nil
}

func TestRainvcBounded(t *testing.T) {
	cases := 0
	for n := 1; n <= 6; n++ {
		masks := 1
		if n <= 3 {
			masks = 1 << n
		}
		for mask := 0; mask < masks; mask++ {
			info := &metainfo.Info{}
			real := 0
			for i := 0; i < n; i++ {
				pad := mask&(1<<i) != 0
				if !pad {
					real++
				}
				info.Files = append(info.Files, metainfo.File{Path: fmt.Sprintf("f%d", i), Length: 10, Padding: pad})
			}
			// mode 0: runs to the end and is received; 1: closed inside the k-th Open; 2: k-th Open fails
			for mode := 0; mode <= 2; mode++ {
				for k := 1; k <= real || (mode == 0 && k == 1); k++ {
					cases++
					sto := &rainvcStorage{inside: make(chan struct{}), release: make(chan struct{})}
					switch mode {
					case 1:
						sto.blockAt = k
					case 2:
						sto.failAt = k
					}
					a := New()
					progressC := make(chan Progress)
					resultC := make(chan *Allocator)
					stopDrain := make(chan struct{})
					go func() {
						for {
							select {
							case <-progressC:
							case <-stopDrain:
								return
							}
						}
					}()
					go a.Run(info, sto, progressC, resultC)
					delivered := false
					switch mode {
					case 0, 2:
						<-resultC
						delivered = true
					case 1:
						<-sto.inside
						closed := make(chan struct{})
						go func() { a.Close(); close(closed) }()
						close(sto.release)
						<-closed
					}
					close(stopDrain)
					sto.mu.Lock()
					open := sto.open
					sto.mu.Unlock()
					what := fmt.Sprintf("files=%d padding-mask=%b mode=%d k=%d", n, mask, mode, k)
					if delivered && a.Error == nil {
						if open != real {
							t.Fatalf("%s: result delivered, %d of %d files open", what, open, real)
						}
						continue
					}
					if open != 0 {
						t.Fatalf("%s: the allocator's result was not handed over (closed first, or failed: %v) and %d files it opened are left open", what, a.Error, open)
					}
				}
			}
		}
	}
	fmt.Printf("RAINVC-BOUNDED cases=%d\n", cases)
}
