// rainvc:pkg torrent
// rainvc:function torrent.(*Torrent).Move / torrent.(*rpcHandler).handleMoveTorrent (a torrent moved to another session)
// rainvc:bound the sample torrent added from file or magnet link, stopped, moved from a session with port range [P,P+2) to a session with a disjoint range of 1, 2 or 3 ports of which 0, 1 or 2 are already taken (2 x 6 cases); then a second move into the same receiver when it has a port left
package torrent

// Bounded stand-in (HTTP, multipart, tar and bbolt are library code, outside the generator's
// reach): a moved torrent leaves the sending session, appears in the receiving session under
// the same id and info-hash with a port of the receiver's range that no other torrent of the
// receiver uses; a move into a session without a free port is refused and the torrent stays
// where it was.

import (
	"fmt"
	"net"
	"os"
	"testing"
)

func TestRainvcBounded(t *testing.T) {
	freeTCP := func() int {
		l, err := net.Listen("tcp", "127.0.0.1:0")
		if err != nil {
			t.Fatal(err)
		}
		defer l.Close()
		return l.Addr().(*net.TCPAddr).Port
	}
	mk := func(dir string, portBegin, n uint16, rpc bool) (*Session, int) {
		cfg := DefaultConfig
		cfg.Database = dir + "/session.db"
		cfg.DataDir = dir + "/data"
		cfg.DHTEnabled = false
		cfg.PEXEnabled = false
		cfg.Host = "127.0.0.1"
		cfg.PortBegin = portBegin
		cfg.PortEnd = portBegin + n
		cfg.RPCEnabled = rpc
		cfg.RPCHost = "127.0.0.1"
		rpcPort := 0
		if rpc {
			rpcPort = freeTCP()
			cfg.RPCPort = rpcPort
		}
		s, err := NewSession(cfg)
		if err != nil {
			t.Fatal(err)
		}
		return s, rpcPort
	}
	add := func(s *Session, viaMagnet bool) (*Torrent, error) {
		opt := &AddTorrentOptions{Stopped: true}
		if viaMagnet {
			return s.AddURI(torrentMagnetLink, opt)
		}
		f, err := os.Open(torrentFile)
		if err != nil {
			return nil, err
		}
		defer f.Close()
		return s.AddTorrent(f, opt)
	}
	cases := 0
	for _, viaMagnet := range []bool{false, true} {
		for _, c := range []struct{ size, taken int }{{1, 0}, {1, 1}, {2, 0}, {2, 1}, {3, 1}, {3, 2}} {
			cases++
			name := fmt.Sprintf("magnet=%v size=%d taken=%d", viaMagnet, c.size, c.taken)
			a, _ := mk(t.TempDir(), 41000, 2, false)
			b, rpcPort := mk(t.TempDir(), 42000, uint16(c.size), true)
			for i := 0; i < c.taken; i++ {
				if _, err := add(b, i%2 == 0); err != nil {
					t.Fatalf("%s: filling receiver: %v", name, err)
				}
			}
			tor, err := add(a, viaMagnet)
			if err != nil {
				t.Fatalf("%s: add: %v", name, err)
			}
			id, ih := tor.ID(), tor.InfoHash()
			err = tor.Move(fmt.Sprintf("http://127.0.0.1:%d", rpcPort))
			free := c.size - c.taken
			if free == 0 {
				if err == nil {
					t.Errorf("%s: move into a session without a free port succeeded", name)
				}
				if a.GetTorrent(id) == nil {
					t.Errorf("%s: refused move removed the torrent from the sender", name)
				}
			} else {
				if err != nil {
					t.Errorf("%s: move failed: %v", name, err)
				} else {
					if a.GetTorrent(id) != nil {
						t.Errorf("%s: moved torrent is still in the sender", name)
					}
					got := b.GetTorrent(id)
					if got == nil {
						t.Errorf("%s: moved torrent is not in the receiver", name)
					} else {
						if got.InfoHash() != ih {
							t.Errorf("%s: info-hash changed", name)
						}
						p := got.Port()
						if p < 42000 || p >= 42000+c.size {
							t.Errorf("%s: port %d outside the receiver's range", name, p)
						}
						seen := map[int]string{}
						for _, x := range b.ListTorrents() {
							if o, dup := seen[x.Port()]; dup {
								t.Errorf("%s: torrents %s and %s share port %d", name, o, x.ID(), x.Port())
							}
							seen[x.Port()] = x.ID()
						}
						b.mPorts.RLock()
						if len(b.availablePorts)+len(seen) != c.size {
							t.Errorf("%s: %d free + %d owned ports, range has %d", name, len(b.availablePorts), len(seen), c.size)
						}
						b.mPorts.RUnlock()
					}
				}
			}
			a.Close()
			b.Close()
		}
	}
	fmt.Printf("RAINVC-BOUNDED cases=%d\n", cases)
}
