// rainvc:pkg torrent
// rainvc:function torrent.(*Torrent).Magnet / torrent.(*torrent).getTieredTrackers (magnet export of a torrent added by magnet link)
// rainvc:bound magnet links with every sequence of 0..3 tracker tiers of 1..3 trackers each (40 shapes, all URLs distinct), with and without a peer address; added stopped, exported, parsed back
package torrent

// Bounded stand-in (URL escaping and string building are library code, outside the generator's
// reach): the magnet link a torrent exports parses back to the info-hash, name, peers and
// tracker tiers (same tiers in the same order, each with the same members) of the link it was added with.

import (
	"fmt"
	"net/url"
	"reflect"
	"sort"
	"testing"

	"github.com/cenkalti/rain/v2/internal/magnet"
)

func TestRainvcBounded(t *testing.T) {
	var shapes [][]int
	var gen func(prefix []int, n int)
	gen = func(prefix []int, n int) {
		shapes = append(shapes, append([]int(nil), prefix...))
		if n == 0 {
			return
		}
		for k := 1; k <= 3; k++ {
			gen(append(prefix, k), n-1)
		}
	}
	gen(nil, 3)
	s := newTestSession(t)
	cases := 0
	for si, shape := range shapes {
		for _, withPeer := range []bool{false, true} {
			cases++
			// a distinct info-hash per case: the session refuses duplicates
			link := fmt.Sprintf("magnet:?xt=urn:btih:%040x&dn=case", 0x1000+cases)
			n := 0
			for ti, size := range shape {
				for k := 0; k < size; k++ {
					n++
					u := fmt.Sprintf("http://t%d-%d.example/announce?x=%d", si, n, k)
					key := "tr"
					if len(shape) > 1 || size > 1 {
						key = fmt.Sprintf("tr.%d", ti)
					}
					link += "&" + key + "=" + url.QueryEscape(u)
				}
			}
			if withPeer {
				link += "&x.pe=" + url.QueryEscape("1.2.3.4:6881")
			}
			want, err := magnet.New(link)
			if err != nil {
				t.Fatalf("link %q does not parse: %v", link, err)
			}
			tor, err := s.AddURI(link, &AddTorrentOptions{Stopped: true})
			if err != nil {
				t.Fatalf("link %q: %v", link, err)
			}
			exported, err := tor.Magnet()
			if err != nil {
				t.Fatalf("violation: shape %v: Magnet(): %v", shape, err)
			}
			got, err := magnet.New(exported)
			if err != nil {
				t.Fatalf("violation: shape %v: exported link %q does not parse: %v", shape, exported, err)
			}
			if got.InfoHash != want.InfoHash || got.Name != want.Name || !reflect.DeepEqual(got.Peers, want.Peers) {
				t.Fatalf("violation: shape %v: exported link %q carries %x %q %v, added with %x %q %v", shape, exported, got.InfoHash, got.Name, got.Peers, want.InfoHash, want.Name, want.Peers)
			}
			if len(got.Trackers) != len(want.Trackers) {
				t.Fatalf("violation: shape %v: exported tiers %v, added with %v (exported %q)", shape, got.Trackers, want.Trackers, exported)
			}
			for i := range want.Trackers {
				// the members of a tier are shuffled when the torrent is created (BEP 12): compare as sets
				g, w := append([]string(nil), got.Trackers[i]...), append([]string(nil), want.Trackers[i]...)
				sort.Strings(g)
				sort.Strings(w)
				if !reflect.DeepEqual(g, w) {
					t.Fatalf("violation: shape %v: exported tier %d is %v, added with %v (exported %q)", shape, i, got.Trackers[i], want.Trackers[i], exported)
				}
			}
			if err := s.RemoveTorrent(tor.ID(), false); err != nil {
				t.Fatal(err)
			}
		}
	}
	fmt.Printf("RAINVC-BOUNDED cases=%d\n", cases)
}
