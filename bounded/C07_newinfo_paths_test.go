// rainvc:pkg internal/metainfo
// rainvc:function internal/metainfo.NewInfo (cleanName, cleanNameN, trimName, replaceSeparator)
// rainvc:bound torrent names and single path components: every byte string of length 0..4 over the 7 bytes [. / \ 0xff 0xc3 a space]; each used as the name of a single-file torrent, as the name of a multi-file torrent with path [x], and as a component of paths [s], [s x], [x s] under name "t"; plus every pair (s1, s2) of byte strings of length 0..3 over [. / 0xff a] as path [s1 s2 x], and the same pairs as path.utf-8 (each string also as name.utf-8) next to harmless plain keys
package metainfo

// Bounded stand-in (name cleaning is string-library code, outside the generator's reach):
// whatever bytes a torrent's name and path components contain (dot-dot, separators, invalid
// UTF-8), every file path of an accepted info dictionary stays inside the data directory
// when joined to it, and two non-padding files never share a path.

import (
	"fmt"
	"path/filepath"
	"strings"
	"testing"

	"github.com/zeebo/bencode"
)

func TestRainvcBounded(t *testing.T) {
	alphabet := []string{".", "/", "\\", "\xff", "\xc3", "a", " "}
	var strs []string
	var gen func(prefix string, n int)
	gen = func(prefix string, n int) {
		strs = append(strs, prefix)
		if n == 0 {
			return
		}
		for _, c := range alphabet {
			gen(prefix+c, n-1)
		}
	}
	gen("", 4)
	root := filepath.Join(string(filepath.Separator), "data", "torrent-id")
	cases := 0
	check := func(what string, dict map[string]any) {
		cases++
		b, err := bencode.EncodeBytes(dict)
		if err != nil {
			t.Fatal(err)
		}
		info, err := NewInfo(b, true, true)
		if err != nil {
			return // rejected
		}
		seen := map[string]bool{}
		for _, f := range info.Files {
			full := filepath.Join(root, f.Path)
			if full != root && !strings.HasPrefix(full, root+string(filepath.Separator)) {
				t.Fatalf("violation: %s: accepted file path %q resolves to %q, outside %q", what, f.Path, full, root)
			}
			if !f.Padding {
				if seen[full] {
					t.Fatalf("violation: %s: two files resolve to %q", what, full)
				}
				seen[full] = true
			}
		}
	}
	pieces := string(make([]byte, 20))
	for _, s := range strs {
		check(fmt.Sprintf("single-file torrent named %q", s), map[string]any{"name": s, "piece length": 16384, "pieces": pieces, "length": 10})
		check(fmt.Sprintf("multi-file torrent named %q", s), map[string]any{"name": s, "piece length": 16384, "pieces": pieces,
			"files": []any{map[string]any{"length": 10, "path": []any{"x"}}}})
		for _, path := range [][]any{{s}, {s, "x"}, {"x", s}} {
			check(fmt.Sprintf("multi-file torrent with path %q", path), map[string]any{"name": "t", "piece length": 16384, "pieces": pieces,
				"files": []any{map[string]any{"length": 5, "path": path}, map[string]any{"length": 5, "path": []any{"y"}}}})
		}
	}
	// two crafted components in one path (one ".." alone only climbs back to the data directory)
	var short []string
	var gen2 func(prefix string, n int)
	gen2 = func(prefix string, n int) {
		short = append(short, prefix)
		if n == 0 {
			return
		}
		for _, c := range []string{".", "/", "\xff", "a"} {
			gen2(prefix+c, n-1)
		}
	}
	gen2("", 3)
	for _, s1 := range short {
		for _, s2 := range short {
			check(fmt.Sprintf("multi-file torrent with path [%q %q x]", s1, s2), map[string]any{"name": "t", "piece length": 16384, "pieces": pieces,
				"files": []any{map[string]any{"length": 10, "path": []any{s1, s2, "x"}}}})
		}
	}
	// the same crafted strings under the UTF-8 keys, next to harmless plain keys (the paths are
	// built from the UTF-8 keys when both are present)
	for _, s1 := range short {
		check(fmt.Sprintf("single-file torrent with name.utf-8 %q", s1), map[string]any{"name": "ok", "name.utf-8": s1, "piece length": 16384, "pieces": pieces, "length": 10})
		for _, s2 := range short {
			check(fmt.Sprintf("multi-file torrent with path.utf-8 [%q %q x]", s1, s2), map[string]any{"name": "t", "piece length": 16384, "pieces": pieces,
				"files": []any{map[string]any{"length": 10, "path": []any{"album", "song", "x"}, "path.utf-8": []any{s1, s2, "x"}}}})
		}
	}
	fmt.Printf("RAINVC-BOUNDED cases=%d\n", cases)
}
