// rainvc:pkg torrent
// rainvc:function torrent.(*Session).CompactDatabase
// rainvc:bound sessions holding the sample torrent added from file and/or from a magnet link (3 combinations), each stopped and never started, with 0 or 1 tracker added afterwards, directly or after the session was closed and the torrents were loaded again by a new session; compacted once and loaded by a fresh session; plus records with started false/true and resume version 1, 2 and latest, compacted by a session that was opened without resuming (6 cases)
package torrent

// Bounded stand-in (bbolt and the codecs are library code, outside the generator's reach):
// compacting the database does not crash and yields a database from which every torrent that
// has metadata loads with the same id, info-hash, name, port and trackers.

import (
	"strconv"
	"time"

	"fmt"
	"go.etcd.io/bbolt"
	"os"
	"path/filepath"
	"reflect"
	"testing"
)

func TestRainvcBounded(t *testing.T) {
	trackerURLs := func(tor *Torrent) []string {
		tor.Stats()
		var out []string
		for _, tr := range tor.torrent.trackers {
			out = append(out, tr.URL())
		}
		return out
	}
	cases := 0
	for _, combo := range [][]bool{{false}, {true}, {false, true}} {
		for _, extraRestart := range [][2]bool{{false, false}, {true, false}, {false, true}, {true, true}} {
			extra, restart := extraRestart[0], extraRestart[1]
			cases++
			tmp := t.TempDir()
			cfg := DefaultConfig
			cfg.Database = filepath.Join(tmp, "session.db")
			cfg.DataDir = tmp
			cfg.DHTEnabled = false
			cfg.PEXEnabled = false
			cfg.RPCEnabled = false
			cfg.Host = "127.0.0.1"
			s, err := NewSession(cfg)
			if err != nil {
				t.Fatal(err)
			}
			type snap struct {
				ih       InfoHash
				name     string
				port     int
				trackers []string
				hasInfo  bool
			}
			want := map[string]snap{}
			var ids []string
			for _, viaMagnet := range combo {
				var tor *Torrent
				opt := &AddTorrentOptions{Stopped: true}
				if viaMagnet {
					tor, err = s.AddURI(torrentMagnetLink, opt)
				} else {
					var f *os.File
					f, err = os.Open(torrentFile)
					if err == nil {
						tor, err = s.AddTorrent(f, opt)
						f.Close()
					}
				}
				if err != nil {
					t.Fatal(err)
				}
				ids = append(ids, tor.ID())
			}
			if restart {
				// the torrents are loaded from the database by a new session before the tracker is added
				if err := s.Close(); err != nil {
					t.Fatal(err)
				}
				s, err = NewSession(cfg)
				if err != nil {
					t.Fatal(err)
				}
			}
			for _, id := range ids {
				tor := s.GetTorrent(id)
				if tor == nil {
					t.Fatalf("violation: torrent %s is gone after a restart", id)
				}
				if extra {
					if err := tor.AddTracker("http://127.0.0.1:9/extra/announce"); err != nil {
						t.Fatal(err)
					}
				}
				want[tor.ID()] = snap{tor.InfoHash(), tor.Name(), tor.Port(), trackerURLs(tor), tor.torrent.info != nil}
			}
			what := fmt.Sprintf("session with torrents added via magnet=%v, extra tracker=%v, restarted before=%v", combo, extra, restart)
			out := filepath.Join(tmp, "compact.db")
			func() {
				defer func() {
					if r := recover(); r != nil {
						t.Fatalf("violation: %s: CompactDatabase panics: %v", what, r)
					}
				}()
				if err := s.CompactDatabase(out); err != nil {
					t.Fatalf("violation: %s: CompactDatabase fails: %v", what, err)
				}
			}()
			if err := s.Close(); err != nil {
				t.Fatal(err)
			}
			cfg.Database = out
			s2, err := NewSession(cfg)
			if err != nil {
				t.Fatalf("violation: %s: the compacted database does not load: %v", what, err)
			}
			for id, w := range want {
				if !w.hasInfo {
					continue // only torrents that have metadata are kept by compaction
				}
				got := s2.GetTorrent(id)
				if got == nil {
					t.Fatalf("violation: %s: torrent %s (which has metadata) is missing from the compacted database", what, id)
				}
				if got.InfoHash() != w.ih || got.Name() != w.name || got.Port() != w.port {
					t.Fatalf("violation: %s: torrent %s loads from the compacted database as %v %q %d, was %v %q %d", what, id, got.InfoHash(), got.Name(), got.Port(), w.ih, w.name, w.port)
				}
				if tr := trackerURLs(got); !reflect.DeepEqual(tr, w.trackers) {
					t.Fatalf("violation: %s: torrent %s loads from the compacted database with trackers %q, had %q", what, id, tr, w.trackers)
				}
			}
			if err := s2.Close(); err != nil {
				t.Fatal(err)
			}
		}
	}
	// the way `rain compact-database` runs it: torrents recorded as started, session opened with
	// ResumeOnStartup=false (so everything is Stopped while compacting); and a record of an
	// older resume version, whose info is read with that version's rules
	for _, started := range []bool{false, true} {
		for _, version := range []int{1, 2, 0} {
			cases++
			tmp := t.TempDir()
			cfg := DefaultConfig
			cfg.Database = filepath.Join(tmp, "session.db")
			cfg.DataDir = tmp
			cfg.DHTEnabled, cfg.PEXEnabled, cfg.RPCEnabled = false, false, false
			cfg.Host = "127.0.0.1"
			cfg.ResumeOnStartup = false
			cfg.TrackerStopTimeout = 50 * time.Millisecond
			s, err := NewSession(cfg)
			if err != nil {
				t.Fatal(err)
			}
			f, err := os.Open(torrentFile)
			if err != nil {
				t.Fatal(err)
			}
			tor, err := s.AddTorrent(f, &AddTorrentOptions{Stopped: true})
			f.Close()
			if err != nil {
				t.Fatal(err)
			}
			id := tor.ID()
			// set the recorded started flag and version directly, as an earlier run would have left them
			err = s.db.Update(func(tx *bbolt.Tx) error {
				b := tx.Bucket(torrentsBucket).Bucket([]byte(id))
				if err := b.Put([]byte("started"), []byte(strconv.FormatBool(started))); err != nil {
					return err
				}
				if version != 0 {
					return b.Put([]byte("version"), []byte(strconv.Itoa(version)))
				}
				return nil
			})
			if err != nil {
				t.Fatal(err)
			}
			before, err := s.resumer.Read(id)
			if err != nil {
				t.Fatal(err)
			}
			what := fmt.Sprintf("record with started=%v version=%d, session opened without resuming", started, before.Version)
			out := filepath.Join(tmp, "compact.db")
			if err := s.CompactDatabase(out); err != nil {
				t.Fatalf("violation: %s: CompactDatabase fails: %v", what, err)
			}
			if err := s.Close(); err != nil {
				t.Fatal(err)
			}
			time.Sleep(100 * time.Millisecond)
			cfg.Database = out
			s2, err := NewSession(cfg)
			if err != nil {
				t.Fatalf("violation: %s: the compacted database does not load: %v", what, err)
			}
			after, err := s2.resumer.Read(id)
			if err != nil {
				t.Fatalf("violation: %s: no record in the compacted database: %v", what, err)
			}
			if after.Started != before.Started {
				t.Fatalf("violation: %s: the compacted database records started=%v", what, after.Started)
			}
			if after.Version != before.Version {
				t.Fatalf("violation: %s: the compacted database records version %d (the info is then read by other rules)", what, after.Version)
			}
			if err := s2.Close(); err != nil {
				t.Fatal(err)
			}
			time.Sleep(100 * time.Millisecond)
		}
	}
	fmt.Printf("RAINVC-BOUNDED cases=%d\n", cases)
}
