// rainvc:pkg internal/handshaker/incominghandshaker
// rainvc:function internal/handshaker/incominghandshaker.(*IncomingHandshaker).Close / Run
// rainvc:bound a remote end that connects and stays silent; handshake timeouts of 3 s and 6 s; Close called 0, 50 and 200 ms after Run started (6 cases); Close must return within one second
package incominghandshaker

// Bounded stand-in (Run's abort path is a goroutine watching a channel, which the generator
// does not follow): closing a handshaker aborts the ongoing handshake instead of waiting for
// the handshake timeout. The torrent's event loop calls Close while stopping, so a Close that
// waits keeps the torrent from reaching Stopped (and from answering any command) that long.

import (
	"fmt"
	"net"
	"testing"
	"time"
)

func TestRainvcBounded(t *testing.T) {
	cases := 0
	for _, timeout := range []time.Duration{3 * time.Second, 6 * time.Second} {
		for _, delay := range []time.Duration{0, 50 * time.Millisecond, 200 * time.Millisecond} {
			cases++
			ln, err := net.Listen("tcp4", "127.0.0.1:0")
			if err != nil {
				t.Skip(err)
			}
			remote, err := net.Dial("tcp4", ln.Addr().String())
			if err != nil {
				t.Skip(err)
			}
			conn, err := ln.Accept()
			if err != nil {
				t.Skip(err)
			}
			h := New(conn)
			resultC := make(chan *IncomingHandshaker)
			var id [20]byte
			var ext [8]byte
			go h.Run(id, func([20]byte) []byte { return nil }, func([20]byte) bool { return true }, resultC, timeout, ext, false)
			time.Sleep(delay)
			begin := time.Now()
			h.Close()
			took := time.Since(begin)
			remote.Close()
			ln.Close()
			if took > time.Second {
				t.Fatalf("handshake timeout %v, Close after %v: Close took %v: it waits for the silent peer's handshake to time out", timeout, delay, took.Round(100*time.Millisecond))
			}
		}
	}
	fmt.Printf("RAINVC-BOUNDED cases=%d\n", cases)
}
