// rainvc:pkg internal/bencodeguard
// rainvc:function internal/bencodeguard.CheckDepth
// rainvc:bound every byte string of length 0..7 over the alphabet l d e i 1 2 : a (all token kinds of bencode, digits that make short and over-long strings, one byte that is no token), with depth limits 0, 1, 2 and 3; plus runs of 1..200000 opening brackets against the default limit
package bencodeguard

// Bounded stand-in (the guard's verdict is compared with a reference reading of the bencode
// grammar - a recursive definition over strings, which the generator does not handle - and with
// the real decoder): the guard rejects exactly the inputs whose first value nests deeper than
// the limit before the point where the decoder would stop, it rejects a string declared longer
// than the data, and it never rejects anything the decoder accepts within the limit.

import (
	"bytes"
	"fmt"
	"testing"

	"github.com/zeebo/bencode"
)

// refDepth reads one value at b[i:] the way the decoder does and reports the deepest nesting it
// enters, whether a string longer than the data is met (before anything else goes wrong), and
// the index after the value (-1: malformed).
func refDepth(b []byte, i, depth int, deepest *int, tooLong *bool) int {
	if i >= len(b) {
		return -1
	}
	switch c := b[i]; {
	case c == 'l' || c == 'd':
		depth++
		if depth > *deepest {
			*deepest = depth
		}
		i++
		for {
			if i >= len(b) {
				return -1
			}
			if b[i] == 'e' {
				return i + 1
			}
			i = refDepth(b, i, depth, deepest, tooLong)
			if i < 0 || *tooLong {
				return -1
			}
		}
	case c == 'i':
		j := bytes.IndexByte(b[i:], 'e')
		if j < 0 {
			return -1
		}
		return i + j + 1
	case c >= '0' && c <= '9':
		n := 0
		j := i
		for j < len(b) && b[j] >= '0' && b[j] <= '9' {
			n = n*10 + int(b[j]-'0')
			if n > 1<<20 {
				*tooLong = true
				return -1
			}
			j++
		}
		if j == len(b) || b[j] != ':' {
			if n > len(b) {
				*tooLong = true // the guard may call this too long or malformed: both are rejections or stops
			}
			return -1
		}
		j++
		if n > len(b)-j {
			*tooLong = true
			return -1
		}
		return j + n
	}
	return -1
}

func TestRainvcBounded(t *testing.T) {
	alphabet := []byte("ldei12:a")
	cases := 0
	check := func(b []byte) {
		deepest := 0
		tooLong := false
		end := refDepth(b, 0, 0, &deepest, &tooLong)
		var v any
		decErr := bencode.NewDecoder(bytes.NewReader(b)).Decode(&v)
		for limit := 0; limit <= 3; limit++ {
			cases++
			err := CheckDepth(b, limit)
			switch {
			case err == ErrTooDeep:
				if deepest <= limit {
					t.Fatalf("violation: %q limit %d: rejected as too deep, the reference enters at most %d levels", b, limit, deepest)
				}
			case err == ErrStringTooLong:
				if !tooLong {
					t.Fatalf("violation: %q limit %d: rejected for a string longer than the data, the reference finds none", b, limit)
				}
				if decErr == nil {
					t.Fatalf("violation: %q: rejected by the guard, accepted by the decoder", b)
				}
			case err == nil:
				if deepest > limit {
					t.Fatalf("violation: %q limit %d: accepted, but reading it enters %d levels of nesting", b, limit, deepest)
				}
				if tooLong && end < 0 && decErr == nil {
					t.Fatalf("violation: %q: reference says over-long string, decoder accepts", b)
				}
			default:
				t.Fatalf("violation: %q: unexpected error %v", b, err)
			}
			if decErr == nil && deepest <= limit && err != nil {
				t.Fatalf("violation: %q limit %d: the decoder accepts it within the limit, the guard rejects it: %v", b, limit, err)
			}
		}
	}
	buf := make([]byte, 0, 8)
	var rec func(n int)
	rec = func(n int) {
		check(buf)
		if n == 0 {
			return
		}
		for _, c := range alphabet {
			buf = append(buf, c)
			rec(n - 1)
			buf = buf[:len(buf)-1]
		}
	}
	rec(7)
	for _, n := range []int{1, MaxDepth - 1, MaxDepth, MaxDepth + 1, 1000, 200000} {
		for _, open := range []byte{'l', 'd'} {
			cases++
			b := bytes.Repeat([]byte{open}, n)
			err := Check(b)
			if (n > MaxDepth) != (err == ErrTooDeep) {
				t.Fatalf("violation: %d opening %q: Check returns %v", n, open, err)
			}
		}
	}
	fmt.Printf("RAINVC-BOUNDED cases=%d\n", cases)
}
