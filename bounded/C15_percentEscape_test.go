// rainvc:pkg internal/tracker/httptracker
// rainvc:function internal/tracker/httptracker.percentEscape
// rainvc:bound every byte value 0..255 at every one of the 20 positions (5120 inputs, other bytes fixed to two fillers), plus all-equal arrays for every byte value
package httptracker

// Bounded stand-in (string building is outside the generator's reach): the info-hash and
// peer id in the announce URL are escaped as exactly three characters "%xx" per byte, with
// two lower- or upper-case hex digits that decode back to the byte.

import (
	"fmt"
	"net/url"
	"testing"
)

func TestRainvcBounded(t *testing.T) {
	cases := 0
	check := func(b [20]byte) {
		cases++
		s := percentEscape(b)
		if len(s) != 60 {
			t.Fatalf("violation: percentEscape(%x) = %q has length %d, want 60", b, s, len(s))
		}
		for i := 0; i < 20; i++ {
			var v byte
			if s[3*i] != '%' {
				t.Fatalf("violation: percentEscape(%x) = %q: byte %d is not escaped as %%xx", b, s, i)
			}
			if _, err := fmt.Sscanf(s[3*i+1:3*i+3], "%02x", &v); err != nil || v != b[i] {
				t.Fatalf("violation: percentEscape(%x) = %q: byte %d (%#02x) is escaped as %q", b, s, i, b[i], s[3*i:3*i+3])
			}
		}
		if dec, err := url.QueryUnescape(s); err != nil || dec != string(b[:]) {
			t.Fatalf("violation: percentEscape(%x) = %q does not decode back to the input", b, s)
		}
	}
	for _, fill := range []byte{0x00, 0xa7} {
		for pos := 0; pos < 20; pos++ {
			for v := 0; v < 256; v++ {
				var b [20]byte
				for i := range b {
					b[i] = fill
				}
				b[pos] = byte(v)
				check(b)
			}
		}
	}
	for v := 0; v < 256; v++ {
		var b [20]byte
		for i := range b {
			b[i] = byte(v)
		}
		check(b)
	}
	fmt.Printf("RAINVC-BOUNDED cases=%d\n", cases)
}
