package main

import (
	"fmt"
	"go/constant"
	"go/types"
	"math/big"
	"strings"

	"golang.org/x/tools/go/ssa"
)

// SVal is the value of a spec expression: a term with an optional Go type
// (nil type = mathematical Int / Bool) and optional address.
type SVal struct {
	T  Term
	Ty types.Type
	A  *Addr // address if the value lives in memory (struct values are loaded lazily)
}

type SpecEnv struct {
	ex       *Exec
	fr       *Frame
	pc       Term
	st       State
	old      State
	vars     map[string]SVal
	entryPar bool // parameter names denote entry values (ensures)
	pkg      *types.Package
	err      error
	depth    int
	facts    []Term // side assumptions produced by loads (type ranges)
}

func (ex *Exec) newSpecEnv(fr *Frame, pc Term, st, old State) *SpecEnv {
	var pkg *types.Package
	if fr.fn == nil {
	} else if fr.fn.Pkg != nil {
		pkg = fr.fn.Pkg.Pkg
	} else if fr.fn.Parent() != nil && fr.fn.Parent().Pkg != nil {
		pkg = fr.fn.Parent().Pkg.Pkg
	}
	return &SpecEnv{ex: ex, fr: fr, pc: pc, st: st, old: old, vars: map[string]SVal{}, pkg: pkg}
}

func (se *SpecEnv) fail(format string, a ...interface{}) SVal {
	if se.err == nil {
		se.err = fmt.Errorf(format, a...)
	}
	return SVal{T: tTrue}
}

// evalBool evaluates a clause; an evaluation error makes the clause
// unprovable (false as goal) and is reported by the caller.
func (se *SpecEnv) evalBool(e SExpr) (Term, error) {
	v := se.eval(e)
	if se.err != nil {
		return tFalse, se.err
	}
	if v.T.Sort != SBool {
		return tFalse, fmt.Errorf("clause is not boolean (sort %s)", v.T.Sort)
	}
	return v.T, nil
}

// ld loads a value for a spec expression and records its type invariant
// (integer range, slice shape) as a global fact, unless the address mentions a
// bound variable.
func (se *SpecEnv) ld(a *Addr, t types.Type) Term {
	v := se.ex.load(se.st, se.pc, a, t)
	if (v.Sort == SInt || v.Sort == SSlice) && !strings.Contains(v.S, "!q") {
		nv := se.ex.vc.def("sv", v)
		se.ex.assumeType(tTrue, nv, t)
		return nv
	}
	return v
}

func (se *SpecEnv) value(v SVal) Term {
	if v.T.S != "" || v.T.Clo != nil {
		return v.T
	}
	if v.A != nil && v.Ty != nil {
		return se.ex.load(se.st, se.pc, v.A, v.Ty)
	}
	return v.T
}

func (se *SpecEnv) eval(e SExpr) SVal {
	ex := se.ex
	switch e := e.(type) {
	case *SIntLit:
		bi, ok := new(big.Int).SetString(e.V, 0)
		if !ok {
			return se.fail("bad integer %s", e.V)
		}
		return SVal{T: bigLit(bi)}
	case *SBoolLit:
		if e.V {
			return SVal{T: tTrue}
		}
		return SVal{T: tFalse}
	case *SStrLit:
		return SVal{T: ex.te.strLit(e.V), Ty: types.Typ[types.String]}
	case *SNil:
		return SVal{T: T("nil?", "nil")}
	case *SIdent:
		return se.ident(e.Name)
	case *SUnary:
		x := se.eval(e.X)
		xt := se.value(x)
		switch e.Op {
		case "!":
			return SVal{T: not(xt)}
		case "-":
			return SVal{T: app(SInt, "-", xt)}
		}
	case *SBinary:
		return se.binary(e)
	case *SChain:
		var parts []Term
		prev := se.eval(e.Terms[0])
		for i, op := range e.Ops {
			nx := se.eval(e.Terms[i+1])
			parts = append(parts, se.compare(op, prev, nx))
			prev = nx
		}
		return SVal{T: and(parts...)}
	case *SCond:
		c := se.value(se.eval(e.C))
		a := se.eval(e.A)
		b := se.eval(e.B)
		at, bt := se.value(a), se.value(b)
		at, bt = se.unifyNil(at, bt)
		return SVal{T: ite(c, at, bt), Ty: a.Ty}
	case *SQuant:
		saved := map[string]SVal{}
		var binders []string
		for i, v := range e.Vars {
			if old, ok := se.vars[v]; ok {
				saved[v] = old
			}
			se.ex.vc.n++
			name := fmt.Sprintf("%s!q%d", v, se.ex.vc.n)
			so := Sort(e.Sorts[i])
			se.vars[v] = SVal{T: T(name, so)}
			binders = append(binders, fmt.Sprintf("(%s %s)", name, so))
		}
		body := se.value(se.eval(e.Body))
		var trig string
		if len(e.Trig) > 0 {
			var ts []string
			for _, t := range e.Trig {
				ts = append(ts, se.value(se.eval(t)).S)
			}
			trig = " :pattern (" + strings.Join(ts, " ") + ")"
		}
		for _, v := range e.Vars {
			delete(se.vars, v)
			if old, ok := saved[v]; ok {
				se.vars[v] = old
			}
		}
		q := "forall"
		if !e.Forall {
			q = "exists"
		}
		if trig != "" {
			return SVal{T: T(fmt.Sprintf("(%s (%s) (! %s%s))", q, strings.Join(binders, " "), body.S, trig), SBool)}
		}
		return SVal{T: T(fmt.Sprintf("(%s (%s) %s)", q, strings.Join(binders, " "), body.S), SBool)}
	case *SSel:
		return se.selector(e)
	case *SIndex:
		return se.index(e)
	case *SCall:
		return se.call(e)
	}
	return se.fail("unsupported spec expression %T", e)
}

func (se *SpecEnv) unifyNil(a, b Term) (Term, Term) {
	if a.Sort == "nil" && b.Sort != "nil" {
		a = nilOf(b.Sort)
	}
	if b.Sort == "nil" && a.Sort != "nil" {
		b = nilOf(a.Sort)
	}
	return a, b
}

func nilOf(so Sort) Term {
	switch so {
	case SRef:
		return tNull
	case SSlice:
		return nilSlice
	case SIface:
		return nilIface
	case SFn:
		return T("fnnil", SFn)
	}
	return T("nil?", "nil")
}

func (se *SpecEnv) compare(op string, x, y SVal) Term {
	a, b := se.value(x), se.value(y)
	a, b = se.unifyNil(a, b)
	switch op {
	case "==", "!=":
		var r Term
		switch {
		case a.Sort == SIface && b.S == nilIface.S:
			r = eq(app(SInt, "itag", a), intLit(0))
		case a.Sort == SSlice && b.S == nilSlice.S:
			r = eq(sBase(a), tNull)
		case a.Sort != b.Sort:
			se.fail("comparison of %s with %s", a.Sort, b.Sort)
			return tFalse
		default:
			r = eq(a, b)
		}
		if op == "!=" {
			return not(r)
		}
		return r
	}
	if a.Sort != SInt || b.Sort != SInt {
		se.fail("ordering on %s/%s", a.Sort, b.Sort)
		return tFalse
	}
	return app(SBool, op, a, b)
}

func (se *SpecEnv) binary(e *SBinary) SVal {
	switch e.Op {
	case "&&":
		return SVal{T: and(se.value(se.eval(e.X)), se.value(se.eval(e.Y)))}
	case "||":
		return SVal{T: or(se.value(se.eval(e.X)), se.value(se.eval(e.Y)))}
	case "==>":
		return SVal{T: implies(se.value(se.eval(e.X)), se.value(se.eval(e.Y)))}
	case "<==>":
		return SVal{T: eq(se.value(se.eval(e.X)), se.value(se.eval(e.Y)))}
	case "==", "!=", "<", "<=", ">", ">=":
		return SVal{T: se.compare(e.Op, se.eval(e.X), se.eval(e.Y))}
	}
	x, y := se.value(se.eval(e.X)), se.value(se.eval(e.Y))
	if x.Sort == SStr && y.Sort == SStr && e.Op == "+" {
		return SVal{T: app(SStr, "strcat", x, y), Ty: types.Typ[types.String]}
	}
	if x.Sort != SInt || y.Sort != SInt {
		return se.fail("arithmetic on %s %s %s", x.Sort, e.Op, y.Sort)
	}
	switch e.Op {
	case "+", "-", "*":
		return SVal{T: app(SInt, e.Op, x, y)}
	case "/":
		return SVal{T: app(SInt, "div", x, y)}
	case "%":
		return SVal{T: app(SInt, "mod", x, y)}
	case "&", "|":
		// exact when one operand is a non-negative literal
		var cst *big.Int
		other := x
		if c, ok := new(big.Int).SetString(y.S, 10); ok && c.Sign() >= 0 {
			cst = c
		} else if c, ok := new(big.Int).SetString(x.S, 10); ok && c.Sign() >= 0 {
			cst, other = c, y
		}
		if cst != nil {
			bits := bitsOf(other, cst)
			if e.Op == "&" {
				return SVal{T: bits}
			}
			return SVal{T: app(SInt, "-", app(SInt, "+", other, bigLit(cst)), bits)}
		}
		if e.Op == "&" {
			return SVal{T: app(SInt, "bitand", x, y)}
		}
		return SVal{T: app(SInt, "bitor", x, y)}
	case "^":
		return SVal{T: app(SInt, "bitxor", x, y)}
	case "<<":
		return SVal{T: app(SInt, "shl", x, y)}
	case ">>":
		return SVal{T: app(SInt, "shr", x, y)}
	}
	return se.fail("operator %s", e.Op)
}

func (se *SpecEnv) ident(name string) SVal {
	if v, ok := se.vars[name]; ok {
		return v
	}
	fr := se.fr
	if se.entryPar {
		if v, ok := fr.params[name]; ok {
			return SVal{T: v, Ty: paramType(fr.fn, name)}
		}
	}
	// local variable / spilled parameter by name (name#k selects the k-th declaration)
	base, ord := name, 1
	if i := strings.Index(name, "#"); i >= 0 {
		base = name[:i]
		fmt.Sscanf(name[i+1:], "%d", &ord)
	}
	for f := fr; f != nil; f = f.parent {
		if als := f.allocBy[base]; len(als) >= ord {
			al := als[ord-1]
			el := al.Type().Underlying().(*types.Pointer).Elem()
			if a, ok := f.addrs[al]; ok {
				if isStruct(el) && a.Local == nil {
					return SVal{Ty: el, A: a}
				}
				v := se.ld(a, el)
				if a.Local != nil {
					if cur, ok := se.st.m[a.Local.Key]; ok && cur.Clo != nil {
						v.Clo = cur.Clo
					}
				}
				return SVal{T: v, Ty: el, A: a}
			}
			return se.fail("local %s not yet allocated at this point", name)
		}
		// free variables of closures
		if f.fn == nil {
			continue
		}
		for i, fv := range f.fn.FreeVars {
			if fv.Name() == base {
				el := fv.Type().Underlying().(*types.Pointer).Elem()
				a := f.addrs[fv]
				if a == nil {
					a = &Addr{Ref: f.vals[fv], Elem: el}
				}
				_ = i
				if isStruct(el) && a.Local == nil {
					return SVal{Ty: el, A: a}
				}
				return SVal{T: se.ld(a, el), Ty: el, A: a}
			}
		}
	}
	if v, ok := fr.params[name]; ok {
		return SVal{T: v, Ty: paramType(fr.fn, name)}
	}
	// ghost variable
	if v, ok := se.st.m["G|"+name]; ok {
		if strings.HasPrefix(v.S, "?hv") {
			if so, known := se.ex.keySort["G|"+name]; known {
				return SVal{T: se.ex.get(se.st, "G|"+name, so)}
			}
			return se.fail("ghost %s has no declared sort here", name)
		}
		return SVal{T: v}
	}
	// package-level constant or variable
	if se.pkg != nil {
		if obj := se.pkg.Scope().Lookup(name); obj != nil {
			return se.object(obj)
		}
	}
	if obj := types.Universe.Lookup(name); obj != nil {
		if c, ok := obj.(*types.Const); ok {
			return se.constVal(c)
		}
	}
	return se.fail("unknown identifier %s", name)
}

func paramType(fn *ssa.Function, name string) types.Type {
	if fn == nil {
		return nil
	}
	for _, p := range fn.Params {
		if p.Name() == name {
			return p.Type()
		}
	}
	return nil
}

func (se *SpecEnv) constVal(c *types.Const) SVal {
	switch c.Val().Kind() {
	case constant.Int:
		bi, _ := new(big.Int).SetString(c.Val().ExactString(), 10)
		return SVal{T: bigLit(bi), Ty: nil}
	case constant.Bool:
		if constant.BoolVal(c.Val()) {
			return SVal{T: tTrue}
		}
		return SVal{T: tFalse}
	case constant.String:
		return SVal{T: se.ex.te.strLit(constant.StringVal(c.Val())), Ty: types.Typ[types.String]}
	}
	return se.fail("constant %s of unsupported kind", c.Name())
}

func (se *SpecEnv) object(obj types.Object) SVal {
	switch o := obj.(type) {
	case *types.Const:
		return se.constVal(o)
	case *types.Var:
		// package-level variable
		for _, pkg := range se.ex.g.prog.AllPackages() {
			if pkg.Pkg == o.Pkg() {
				if g, ok := pkg.Members[o.Name()].(*ssa.Global); ok {
					if se.ex.te.sortOf(o.Type()) == SIface {
						if c, isConst := se.ex.initGlobalValue(g); isConst {
							return SVal{T: c, Ty: o.Type()}
						}
					}
					ref := T(fmt.Sprintf("(obj %d)", se.ex.g.globalID(g)), SRef)
					a := &Addr{Ref: ref, Elem: o.Type()}
					if isStruct(o.Type()) {
						return SVal{Ty: o.Type(), A: a}
					}
					return SVal{T: se.ex.load(se.st, se.pc, a, o.Type()), Ty: o.Type(), A: a}
				}
			}
		}
	}
	return se.fail("unsupported object %s", obj.Name())
}

func (se *SpecEnv) selector(e *SSel) SVal {
	// package-qualified constant?
	if id, ok := e.X.(*SIdent); ok {
		if _, isVar := se.vars[id.Name]; !isVar && se.pkg != nil {
			if _, isLocal := se.lookupLocal(id.Name); !isLocal {
				for _, imp := range se.pkg.Imports() {
					if imp.Name() == id.Name {
						if obj := imp.Scope().Lookup(e.Name); obj != nil {
							return se.object(obj)
						}
					}
				}
			}
		}
	}
	x := se.eval(e.X)
	if se.err != nil {
		return x
	}
	if x.Ty == nil {
		return se.fail("selector .%s on untyped value", e.Name)
	}
	// pseudo-fields on slices
	t := x.Ty
	// find field path
	obj, path, _ := types.LookupFieldOrMethod(t, true, se.pkgFor(t), e.Name)
	fld, ok := obj.(*types.Var)
	if !ok || !fld.IsField() {
		return se.fail("no field %s in %s", e.Name, t)
	}
	cur := x
	for _, idx := range path {
		cur = se.fieldStep(cur, idx)
		if se.err != nil {
			return cur
		}
	}
	return cur
}

func (se *SpecEnv) pkgFor(t types.Type) *types.Package {
	if p, ok := t.Underlying().(*types.Pointer); ok {
		t = p.Elem()
	}
	if n, ok := types.Unalias(t).(*types.Named); ok && n.Obj().Pkg() != nil {
		return n.Obj().Pkg()
	}
	return se.pkg
}

func (se *SpecEnv) lookupLocal(name string) (*ssa.Alloc, bool) {
	for f := se.fr; f != nil; f = f.parent {
		if als := f.allocBy[name]; len(als) > 0 {
			return als[0], true
		}
		for _, fv := range f.fn.FreeVars {
			if fv.Name() == name {
				return nil, true
			}
		}
	}
	if _, ok := se.fr.params[name]; ok {
		return nil, true
	}
	return nil, false
}

func (se *SpecEnv) fieldStep(x SVal, idx int) SVal {
	ex := se.ex
	t := x.Ty
	if p, ok := t.Underlying().(*types.Pointer); ok {
		// pointer to struct: x.T is the object ref
		el := p.Elem()
		stt, ok := el.Underlying().(*types.Struct)
		if !ok {
			return se.fail("field of non-struct pointer %s", t)
		}
		ref := se.value(x)
		a := ex.fieldAddr(ref, el, idx)
		ft := stt.Field(idx).Type()
		if isStruct(ft) {
			return SVal{Ty: ft, A: a}
		}
		if _, isArr := isArray(ft); isArr {
			return SVal{Ty: ft, A: a}
		}
		return SVal{T: se.ld(a, ft), Ty: ft, A: a}
	}
	stt, ok := t.Underlying().(*types.Struct)
	if !ok {
		return se.fail("field of non-struct %s", t)
	}
	ft := stt.Field(idx).Type()
	if x.A != nil {
		if x.A.Local != nil {
			si := ex.te.structInfo(t)
			path := append(append([]pathStep{}, x.A.Path...), pathStep{field: idx, si: si})
			a := &Addr{Local: x.A.Local, Path: path, Elem: ft}
			return SVal{T: se.ld(a, ft), Ty: ft, A: a}
		}
		a := ex.fieldAddr(x.A.Ref, t, idx)
		if isStruct(ft) {
			return SVal{Ty: ft, A: a}
		}
		if _, isArr := isArray(ft); isArr {
			return SVal{Ty: ft, A: a}
		}
		return SVal{T: se.ld(a, ft), Ty: ft, A: a}
	}
	si := ex.te.structInfo(t)
	return SVal{T: ex.te.fieldGet(si, x.T, idx), Ty: ft}
}

func (se *SpecEnv) index(e *SIndex) SVal {
	ex := se.ex
	x := se.eval(e.X)
	i := se.value(se.eval(e.I))
	if se.err != nil {
		return x
	}
	if x.Ty == nil {
		return se.fail("index on untyped value")
	}
	switch xt := x.Ty.Underlying().(type) {
	case *types.Slice:
		s := se.value(x)
		a := &Addr{Ref: sliceAt(s, i), Elem: xt.Elem()}
		if isStruct(xt.Elem()) {
			return SVal{Ty: xt.Elem(), A: a}
		}
		return SVal{T: se.ld(a, xt.Elem()), Ty: xt.Elem(), A: a}
	case *types.Array:
		if x.A != nil && x.A.Local == nil {
			a := &Addr{Ref: refElem(x.A.Ref, i), Elem: xt.Elem()}
			if isStruct(xt.Elem()) {
				return SVal{Ty: xt.Elem(), A: a}
			}
			return SVal{T: se.ld(a, xt.Elem()), Ty: xt.Elem(), A: a}
		}
		return SVal{T: sel(se.value(x), i, ex.te.sortOf(xt.Elem())), Ty: xt.Elem()}
	case *types.Map:
		m := se.value(x)
		dom, val, _ := ex.mapArrays(se.st, x.Ty, m)
		vs := ex.te.sortOf(xt.Elem())
		ks := ex.te.sortOf(xt.Key())
		if i.Sort != ks {
			return se.fail("map key sort %s, want %s", i.Sort, ks)
		}
		return SVal{T: ite(sel(dom, i, SBool), sel(val, i, vs), ex.te.zero(xt.Elem())), Ty: xt.Elem()}
	case *types.Pointer:
		if arr, ok := xt.Elem().Underlying().(*types.Array); ok {
			ref := se.value(x)
			a := &Addr{Ref: refElem(ref, i), Elem: arr.Elem()}
			return SVal{T: se.ld(a, arr.Elem()), Ty: arr.Elem(), A: a}
		}
	}
	return se.fail("index on %s", x.Ty)
}

func (se *SpecEnv) call(e *SCall) SVal {
	ex := se.ex
	switch e.Fun {
	case "old":
		if len(e.Args) != 1 {
			return se.fail("old takes one argument")
		}
		saveSt, saveEP := se.st, se.entryPar
		se.st = se.old
		se.entryPar = true
		v := se.eval(e.Args[0])
		if v.T.S == "" && v.A != nil {
			v.T = se.value(v)
		}
		se.st, se.entryPar = saveSt, saveEP
		return v
	case "len", "cap":
		x := se.eval(e.Args[0])
		if se.err != nil {
			return x
		}
		if x.Ty == nil {
			if x.T.Sort == SSlice {
				if e.Fun == "cap" {
					return SVal{T: sCap(x.T)}
				}
				return SVal{T: sLen(x.T)}
			}
			return se.fail("len of untyped")
		}
		switch xt := x.Ty.Underlying().(type) {
		case *types.Slice:
			if e.Fun == "cap" {
				return SVal{T: sCap(se.value(x))}
			}
			return SVal{T: sLen(se.value(x))}
		case *types.Basic:
			return SVal{T: app(SInt, "strlen", se.value(x))}
		case *types.Array:
			return SVal{T: intLit(xt.Len())}
		case *types.Map:
			_, _, ln := ex.mapArrays(se.st, x.Ty, se.value(x))
			return SVal{T: ln}
		}
		return se.fail("len of %s", x.Ty)
	case "has":
		// has(m, k): map membership
		x := se.eval(e.Args[0])
		k := se.value(se.eval(e.Args[1]))
		if se.err != nil {
			return x
		}
		if _, ok := x.Ty.Underlying().(*types.Map); !ok {
			return se.fail("has on non-map")
		}
		dom, _, _ := ex.mapArrays(se.st, x.Ty, se.value(x))
		return SVal{T: sel(dom, k, SBool)}
	case "min", "max":
		a, b := se.value(se.eval(e.Args[0])), se.value(se.eval(e.Args[1]))
		op := "<="
		if e.Fun == "max" {
			op = ">="
		}
		return SVal{T: ite(app(SBool, op, a, b), a, b)}
	case "typeis":
		// typeis(x, "pkg.Type") : dynamic type test on an interface value
		x := se.value(se.eval(e.Args[0]))
		s, ok := e.Args[1].(*SStrLit)
		if !ok {
			return se.fail("typeis needs a string literal type")
		}
		t := ex.g.lookupType(s.V)
		if t == nil {
			return se.fail("typeis: unknown type %s", s.V)
		}
		return SVal{T: eq(app(SInt, "itag", x), intLit(int64(ex.te.tag(t))))}
	case "ptr":
		// ptr(q, "pkg.Type"): a Ref-sorted value (typically a quantified variable) read as *Type
		x := se.value(se.eval(e.Args[0]))
		s, ok := e.Args[1].(*SStrLit)
		if !ok || x.Sort != SRef {
			return se.fail("ptr needs a Ref value and a string literal type")
		}
		t := ex.g.lookupType(s.V)
		if t == nil {
			return se.fail("ptr: unknown type %s", s.V)
		}
		if _, isPtr := t.Underlying().(*types.Pointer); !isPtr {
			t = types.NewPointer(t)
		}
		return SVal{T: x, Ty: t}
	case "unbox":
		// unbox(x, "pkg.Type"): payload of an interface value holding Type
		x := se.value(se.eval(e.Args[0]))
		s, ok := e.Args[1].(*SStrLit)
		if !ok {
			return se.fail("unbox needs a string literal type")
		}
		t := ex.g.lookupType(s.V)
		if t == nil {
			return se.fail("unbox: unknown type %s", s.V)
		}
		if ex.te.sortOf(t) == SRef {
			return SVal{T: app(SRef, "ibox", x), Ty: t}
		}
		a := &Addr{Ref: app(SRef, "ibox", x), Elem: t}
		if isStruct(t) {
			return SVal{Ty: t, A: a}
		}
		return SVal{T: ex.load(se.st, se.pc, a, t), Ty: t, A: a}
	case "isnil":
		x := se.value(se.eval(e.Args[0]))
		switch x.Sort {
		case SIface:
			return SVal{T: eq(app(SInt, "itag", x), intLit(0))}
		case SSlice:
			return SVal{T: eq(sBase(x), tNull)}
		}
		return SVal{T: eq(x, nilOf(x.Sort))}
	case "closed":
		xv := se.eval(e.Args[0])
		x := se.value(xv)
		key := "G|closed"
		if xv.A != nil && xv.A.IsField {
			key = fmt.Sprintf("G|closed|%s|%d", xv.A.SKey, xv.A.Field)
		}
		h := ex.get(se.st, key, arraySort(SRef, SBool))
		return SVal{T: sel(h, x, SBool)}
	case "base", "off":
		// backing array and offset of a slice value
		x := se.value(se.eval(e.Args[0]))
		if x.Sort != SSlice {
			return se.fail("%s of non-slice", e.Fun)
		}
		if e.Fun == "base" {
			return SVal{T: sBase(x)}
		}
		return SVal{T: sOff(x)}
	case "addr":
		// addr(x): Ref of an addressable spec value
		x := se.eval(e.Args[0])
		if x.A == nil || x.A.Local != nil {
			return se.fail("addr of non-heap value")
		}
		return SVal{T: x.A.Ref}
	}
	if strings.HasPrefix(e.Fun, "dyn_") && len(e.Args) == 1 {
		// result of an interface method declared pure (`dyncall Iface.Method pure`)
		for _, d := range ex.g.cs.Dyn {
			if d.Pure && "dyn_"+sanitize(d.Method) == e.Fun {
				x := se.value(se.eval(e.Args[0]))
				if x.Sort != SIface {
					return se.fail("%s expects an interface value", e.Fun)
				}
				so := SInt
				if s, ok := ex.dynSort[e.Fun]; ok {
					so = s
				}
				if !ex.ufunUsed[e.Fun] {
					ex.ufunUsed[e.Fun] = true
					ex.ufunDecl = append(ex.ufunDecl, fmt.Sprintf("(declare-fun %s (Iface) %s)", e.Fun, so))
				}
				return SVal{T: app(so, e.Fun, x)}
			}
		}
	}
	if u, ok := ex.g.cs.UFuns[e.Fun]; ok {
		args := make([]Term, len(e.Args))
		for i, a := range e.Args {
			args[i] = se.value(se.eval(a))
			if i < len(u.Args) && args[i].Sort != u.Args[i] {
				return se.fail("ufun %s arg %d: sort %s, want %s", e.Fun, i, args[i].Sort, u.Args[i])
			}
		}
		ex.useUFun(u)
		if len(args) == 0 {
			return SVal{T: T(u.Name, u.Res)}
		}
		return SVal{T: app(u.Res, u.Name, args...)}
	}
	// predicate (macro)
	var pr *Pred
	if se.pkg != nil {
		pr = ex.g.cs.Preds[se.pkg.Path()+"."+e.Fun]
	}
	if pr == nil {
		pr = ex.g.cs.Preds[e.Fun]
	}
	if pr == nil {
		return se.fail("unknown spec function %s", e.Fun)
	}
	if len(pr.Params) != len(e.Args) {
		return se.fail("pred %s: %d args, want %d", e.Fun, len(e.Args), len(pr.Params))
	}
	if se.depth > 20 {
		return se.fail("pred recursion too deep in %s", e.Fun)
	}
	args := make([]SVal, len(e.Args))
	for i, a := range e.Args {
		args[i] = se.eval(a)
	}
	if pr.Rec {
		return se.callRec(pr, args)
	}
	saved := se.vars
	nv := map[string]SVal{}
	for k, v := range saved {
		nv[k] = v
	}
	for i, p := range pr.Params {
		nv[p] = args[i]
	}
	se.vars = nv
	se.depth++
	r := se.eval(pr.Body)
	se.depth--
	se.vars = saved
	return r
}
