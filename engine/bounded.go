package main

import (
	"encoding/json"
	"fmt"
	"os"
	"path/filepath"
	"regexp"
	"sort"
	"strings"
)

// Bounded stand-ins: functions the generator cannot reach (string and URL
// manipulation, filesystem walks) are exercised exhaustively over a stated
// finite input space by an in-package test run against the real code through
// `go test -overlay`. They are labelled bounded, reported separately in the
// evidence and never counted among the discharged obligations.
//
// A stand-in is /verif/bounded/<prop>_<name>_test.go with header lines
//   // rainvc:pkg <package dir relative to /repo>
//   // rainvc:function <function it stands in for>
//   // rainvc:bound <the input space enumerated>
// and a test TestRainvcBounded that prints "RAINVC-BOUNDED cases=<n>" and
// FAILS (naming the input) when the real code violates the clause.

type boundedResult struct {
	File     string `json:"file"`
	Function string `json:"function"`
	Bound    string `json:"bound"`
	Cases    int    `json:"cases"`
	Result   string `json:"result"`
	Cmd      string `json:"cmd"`
	Output   string `json:"output,omitempty"`
}

var casesRe = regexp.MustCompile(`RAINVC-BOUNDED cases=(\d+)`)

func (cr *checkRun) runBounded() (results []boundedResult, violLines []string) {
	files, _ := filepath.Glob(filepath.Join(cr.verifDir, "bounded", cr.prop+"_*_test.go"))
	sort.Strings(files)
	for _, f := range files {
		src, err := os.ReadFile(f)
		if err != nil {
			continue
		}
		r := boundedResult{File: strings.TrimPrefix(f, cr.verifDir+"/")}
		pkgRel := ""
		for _, ln := range strings.Split(string(src), "\n") {
			switch {
			case strings.HasPrefix(ln, "// rainvc:pkg "):
				pkgRel = strings.TrimSpace(strings.TrimPrefix(ln, "// rainvc:pkg "))
			case strings.HasPrefix(ln, "// rainvc:function "):
				r.Function = strings.TrimSpace(strings.TrimPrefix(ln, "// rainvc:function "))
			case strings.HasPrefix(ln, "// rainvc:bound "):
				r.Bound = strings.TrimSpace(strings.TrimPrefix(ln, "// rainvc:bound "))
			}
		}
		cmdline, out, err := cr.goTestOverlay(pkgRel, string(src), "TestRainvcBounded")
		r.Cmd = cmdline
		if m := casesRe.FindStringSubmatch(out); m != nil {
			fmt.Sscanf(m[1], "%d", &r.Cases)
		}
		switch {
		case err == nil && r.Cases > 0:
			r.Result = "held on every enumerated case"
		case err != nil && strings.Contains(out, "--- FAIL"):
			r.Result = "violated"
			r.Output = truncate(out, 4000)
		default:
			r.Result = "did not run"
			r.Output = truncate(out, 4000)
		}
		results = append(results, r)
		if r.Result != "held on every enumerated case" {
			o := &Obligation{ID: "bounded:" + strings.TrimSuffix(filepath.Base(f), "_test.go"), Func: r.Function, Kind: "bounded", Static: true, Result: "failed", Props: []string{cr.prop},
				Detail: "bounded stand-in (" + r.Bound + "): " + r.Result}
			rf := replayFile{Obligation: o.ID, Family: o.ID, Kind: "bounded", Function: r.Function, Verdict: r.Result, Property: cr.prop, Detail: o.Detail, ReplayKind: "bounded stand-in " + r.File, ReplayCmd: cmdline, ReplayOut: r.Output, ReplayTest: r.File, Replayed: r.Result == "violated"}
			if rf.Replayed {
				rf.Explanation = "the bounded stand-in ran the real code over its enumerated inputs and one of them violates the clause (see replay_output)"
			} else {
				rf.Explanation = "the bounded stand-in could not be run to completion on this tree"
			}
			dir := filepath.Join(cr.verifDir, "replays", cr.prop)
			os.MkdirAll(dir, 0o755)
			path := filepath.Join(dir, sanitize(o.ID)+".json")
			data, _ := json.MarshalIndent(rf, "", " ")
			os.WriteFile(path, append(data, '\n'), 0o644)
			suffix := ""
			if !rf.Replayed {
				suffix = " no-failing-input-found"
			}
			violLines = append(violLines, fmt.Sprintf("VIOLATION property=%s replay=%s obligation=%s%s", cr.prop, path, o.ID, suffix))
		}
	}
	return
}
