package main

import (
	"encoding/json"
	"flag"
	"fmt"
	"os"
	"path/filepath"
	"regexp"
	"runtime"
	"sort"
	"strconv"
	"strings"
	"time"
)

type KnownFinding struct {
	Property   string `json:"property"`
	Obligation string `json:"obligation"`
	Case       string `json:"case"`
	Status     string `json:"status"` // open | fixed
	Commit     string `json:"commit,omitempty"`
	Evidence   string `json:"evidence,omitempty"`
}

type Ledger struct {
	Note       string                       `json:"note"`
	Properties map[string]map[string]string `json:"properties"` // prop -> family -> kind
}

var famRe = regexp.MustCompile(`(@\d+|(\.step|\.decreases)\.\d+)$`)
var safetyRe = regexp.MustCompile(`#(bounds|slice|div|panic|make|nil|close)\d+$`)

// family strips per-site ordinals so that adding or removing a site does not
// change the identity of what is being checked.
func family(id string) string {
	id = famRe.ReplaceAllString(id, "$2")
	if m := safetyRe.FindStringSubmatch(id); m != nil {
		id = id[:strings.LastIndex(id, "#")] + "#" + m[1]
	}
	return id
}

func hasProp(ps []string, p string) bool { return contains(ps, p) }

func contractHasProp(fc *FuncContract, p string) bool {
	if hasProp(fc.Props, p) {
		return true
	}
	for _, c := range fc.Requires {
		if hasProp(c.Props, p) {
			return true
		}
	}
	for _, c := range fc.Ensures {
		if hasProp(c.Props, p) {
			return true
		}
	}
	for _, s := range fc.Sites {
		if hasProp(s.C.Props, p) {
			return true
		}
	}
	for _, l := range fc.Loops {
		for _, c := range l.Invs {
			if hasProp(c.Props, p) {
				return true
			}
		}
	}
	return false
}

func readJSON(path string, v interface{}) error {
	data, err := os.ReadFile(path)
	if err != nil {
		return err
	}
	return json.Unmarshal(data, v)
}

type checkRun struct {
	bounded  []boundedResult
	prop     string
	tier     string
	g        *Global
	results  []*FuncResult
	lemmaResults []*FuncResult
	trustedFns   []string
	obls     []*Obligation
	covers   []*Obligation
	oblVC    map[*Obligation]*VC
	missing  []string
	dir      string
	verifDir string
}

func cmdCheck(args []string) int {
	fs := flag.NewFlagSet("check", flag.ExitOnError)
	repo := fs.String("repo", "/repo", "")
	verif := fs.String("verif", "/verif", "")
	prop := fs.String("prop", "", "property id")
	tier := fs.String("tier", "quick", "quick|thorough")
	noEvidence := fs.Bool("no-evidence", false, "do not write evidence (selftest)")
	ledgerOut := fs.String("ledger-out", "", "write families generated to this file")
	fs.Parse(args)
	if *prop == "" {
		usage()
	}
	t0 := time.Now()
	seed := 0
	if s := os.Getenv("VERIF_SEED"); s != "" {
		seed, _ = strconv.Atoi(s)
	}
	g, err := loadGlobal(*repo)
	if err != nil {
		// The tree does not load: nothing can be decided; report as tool error.
		fmt.Fprintln(os.Stderr, "rainvc: cannot load /repo:", err)
		return 2
	}
	g.buildFrames()
	dir, _ := os.MkdirTemp("", "rainvc")
	defer os.RemoveAll(dir)
	// replay files describe this run only
	os.RemoveAll(filepath.Join(*verif, "replays", *prop))
	cr := &checkRun{prop: *prop, tier: *tier, g: g, oblVC: map[*Obligation]*VC{}, dir: dir, verifDir: *verif}
	timeout := 10
	if *tier == "thorough" {
		timeout = 60
	}
	var ledger Ledger
	_ = readJSON(filepath.Join(*verif, "ledger.json"), &ledger)
	var known []KnownFinding
	_ = readJSON(filepath.Join(*verif, "known_findings.json"), &known)

	// 1. functions under contract for this property
	var ids []string
	for id, fc := range g.cs.Funcs {
		if contractHasProp(fc, *prop) {
			ids = append(ids, id)
		}
	}
	sort.Strings(ids)
	genStart := time.Now()
	for _, id := range ids {
		fc := g.cs.Funcs[id]
		fn := g.fnByID[id]
		if fn == nil || fn.Blocks == nil {
			cr.missing = append(cr.missing, shortID(id))
			continue
		}
		if fc.Trusted {
			// contract assumed, body not verified: reported under trusted_base by its users
			cr.trustedFns = append(cr.trustedFns, shortID(id)+": "+fc.TrustWhy)
			continue
		}
		res := verifyFunc(g, fn, fc)
		cr.results = append(cr.results, res)
		for _, o := range res.Obls {
			if hasProp(o.Props, *prop) {
				cr.obls = append(cr.obls, o)
				cr.oblVC[o] = res.VC
			}
		}
		for _, o := range res.Covers {
			cr.covers = append(cr.covers, o)
			cr.oblVC[o] = res.VC
		}
	}
	// lemmas proved by induction
	seenLemma := map[*Lemma]bool{}
	for _, k := range sortedKeys(g.cs.Lemmas) {
		l := g.cs.Lemmas[k]
		if seenLemma[l] || !hasProp(l.Props, *prop) {
			continue
		}
		seenLemma[l] = true
		res := verifyLemma(g, l)
		cr.lemmaResults = append(cr.lemmaResults, res)
		for _, o := range res.Obls {
			cr.obls = append(cr.obls, o)
			cr.oblVC[o] = res.VC
		}
	}
	// 2. whole-program whitelists
	for _, wl := range g.cs.WLs {
		if hasProp(wl.Props, *prop) {
			cr.obls = append(cr.obls, g.checkWhitelist(wl)...)
		}
	}
	genS := time.Since(genStart).Seconds()
	// 3. discharge
	var jobs []func()
	for _, o := range append(append([]*Obligation{}, cr.obls...), cr.covers...) {
		o := o
		if o.Static {
			continue
		}
		vc := cr.oblVC[o]
		jobs = append(jobs, func() { discharge(dir, vc, o, timeout, *tier == "thorough") })
	}
	par := runtime.NumCPU() / 2
	if par < 2 {
		par = 2
	}
	solveStart := time.Now()
	dischargeAll(dir, jobs, par)
	solveWall := time.Since(solveStart).Seconds()

	// 4. ledger comparison: every family recorded for the property must still be generated
	gen := map[string]bool{}
	for _, o := range cr.obls {
		gen[family(o.ID)] = true
	}
	var vanished []*Obligation
	for fam, kind := range ledger.Properties[*prop] {
		if strings.HasPrefix(kind, "cover:") {
			continue
		}
		if !gen[fam] {
			o := &Obligation{ID: fam, Kind: kind, Static: true, Result: "failed", Props: []string{*prop},
				Detail: "obligation recorded in the ledger is no longer generated: contract target missing (function, loop, call site or clause anchor vanished)"}
			if i := strings.Index(fam, "#"); i >= 0 {
				o.Func = fam[:i]
			}
			vanished = append(vanished, o)
		}
	}
	sort.Slice(vanished, func(i, j int) bool { return vanished[i].ID < vanished[j].ID })
	cr.obls = append(cr.obls, vanished...)
	for _, m := range cr.missing {
		found := false
		for _, o := range vanished {
			if o.Func == m {
				found = true
			}
		}
		if !found {
			cr.obls = append(cr.obls, &Obligation{ID: m + "#anchor", Func: m, Kind: "anchor", Static: true, Result: "failed", Props: []string{*prop}, Detail: "function under contract not found in the program"})
		}
	}

	// 5. verdicts
	openKF := map[string]KnownFinding{}
	for _, k := range known {
		if k.Property == *prop && k.Status == "open" {
			openKF[k.Obligation] = k
		}
	}
	nViol := 0
	discharged := 0
	var kfLines, violLines []string
	var unledgered []string
	solverTime := 0.0
	for _, o := range cr.obls {
		solverTime += o.TimeS
		if _, inLedger := ledger.Properties[*prop][family(o.ID)]; !inLedger && ledger.Properties[*prop] != nil {
			unledgered = append(unledgered, o.ID)
		}
		if o.Result == "proved" {
			discharged++
			continue
		}
		if k, ok := openKF[family(o.ID)]; ok {
			kfLines = append(kfLines, fmt.Sprintf("KNOWN-FINDING: property=%s %s: %s", *prop, family(o.ID), k.Case))
			continue
		}
		nViol++
		path := cr.writeReplay(o)
		line := fmt.Sprintf("VIOLATION property=%s replay=%s", *prop, path)
		if !o.replayed {
			line += " obligation=" + o.ID + " no-failing-input-found"
		} else {
			line += " obligation=" + o.ID
		}
		violLines = append(violLines, line)
	}
	// Vacuity: an infeasible return point is tolerated only if the ledger records that many
	// dead returns for the function on the pinned tree (defensive dead code); any other
	// infeasible path means the hypotheses contradict each other.
	vacuous := 0
	deadNow := map[string][]*Obligation{}
	for _, o := range cr.covers {
		solverTime += o.TimeS
		if o.Result == "proved" {
			continue
		}
		if strings.Contains(o.ID, "#cover.return@") {
			deadNow[family(o.ID)] = append(deadNow[family(o.ID)], o)
			continue
		}
		vacuous++
		nViol++
		path := cr.writeReplay(o)
		violLines = append(violLines, fmt.Sprintf("VIOLATION property=%s replay=%s obligation=%s vacuous-contract no-failing-input-found", *prop, path, o.ID))
	}
	deadLedger := map[string]string{}
	for _, fam := range sortedKeys(deadNow) {
		os := deadNow[fam]
		allowed := 0
		if k, ok := ledger.Properties[*prop][fam]; ok {
			fmt.Sscanf(k, "cover:dead=%d", &allowed)
		}
		deadLedger[fam] = fmt.Sprintf("cover:dead=%d", len(os))
		for i, o := range os {
			if i < allowed {
				continue
			}
			vacuous++
			nViol++
			path := cr.writeReplay(o)
			violLines = append(violLines, fmt.Sprintf("VIOLATION property=%s replay=%s obligation=%s return-path-infeasible-under-contracts no-failing-input-found", *prop, path, o.ID))
		}
	}
	if *ledgerOut != "" {
		fams := map[string]string{}
		vanishedFam := map[string]bool{}
		for _, o := range vanished {
			vanishedFam[o.ID] = true
		}
		for _, o := range cr.obls {
			if vanishedFam[family(o.ID)] {
				continue // recorded earlier, not generated now: not part of the new ledger
			}
			fams[family(o.ID)] = o.Kind
		}
		for k, v := range deadLedger {
			fams[k] = v
		}
		data, _ := json.MarshalIndent(fams, "", " ")
		os.WriteFile(*ledgerOut, data, 0o644)
	}
	sort.Strings(kfLines)
	seenKF := map[string]bool{}
	for _, l := range kfLines {
		if !seenKF[l] {
			fmt.Println(l)
			seenKF[l] = true
		}
	}
	// bounded stand-ins for functions outside the generator's reach (never counted as proved)
	bounded, bviol := cr.runBounded()
	cr.bounded = bounded
	violLines = append(violLines, bviol...)
	nViol += len(bviol)
	for _, l := range violLines {
		fmt.Println(l)
	}
	nObl := len(cr.obls)
	if nObl == 0 {
		fmt.Printf("VIOLATION property=%s replay=none no obligations generated (vacuous check) no-failing-input-found\n", *prop)
		nViol++
	}
	wall := time.Since(t0).Seconds()
	btxt := ""
	if len(cr.bounded) > 0 {
		cases := 0
		for _, b := range cr.bounded {
			cases += b.Cases
		}
		btxt = fmt.Sprintf(", %d bounded stand-ins (%d cases, not counted as proved)", len(cr.bounded), cases)
	}
	fmt.Printf("rainvc %s %s: %d obligations, %d discharged, %d known findings, %d violations, %d covers (%d vacuous)%s, load %.1fs frames %.1fs gen %.1fs solve %.1fs wall %.1fs\n",
		*prop, *tier, nObl, discharged, len(seenKF), nViol, len(cr.covers), vacuous, btxt, g.loadS, g.frameS, genS, solveWall, wall)
	if !*noEvidence {
		cr.writeEvidence(seed, nObl, discharged, nViol, len(seenKF), unledgered, solverTime, wall, kfLines)
	}
	if nViol > 0 {
		return 1
	}
	return 0
}

func cmdLedger(args []string) int {
	fs := flag.NewFlagSet("ledger", flag.ExitOnError)
	verif := fs.String("verif", "/verif", "")
	fs.Parse(args)
	// Assemble ledger.json from per-property family files written by `check -ledger-out`.
	led := Ledger{Note: "obligation families generated and discharged on the pinned tree; regenerate with ./check ledger", Properties: map[string]map[string]string{}}
	files, _ := filepath.Glob(filepath.Join(*verif, "ledger.d", "*.json"))
	for _, f := range files {
		var fams map[string]string
		if err := readJSON(f, &fams); err != nil {
			fmt.Fprintln(os.Stderr, err)
			return 2
		}
		led.Properties[strings.TrimSuffix(filepath.Base(f), ".json")] = fams
	}
	data, _ := json.MarshalIndent(led, "", " ")
	if err := os.WriteFile(filepath.Join(*verif, "ledger.json"), append(data, '\n'), 0o644); err != nil {
		fmt.Fprintln(os.Stderr, err)
		return 2
	}
	return 0
}
