package main

import (
	"fmt"
	"go/token"
	"go/types"
	"math/big"
	"strings"

	"golang.org/x/tools/go/ssa"
)

func (ex *Exec) safetyObl(fr *Frame, class string, pos token.Pos, pc, goal Term, detail string) {
	if !ex.safety[class] {
		return
	}
	ex.nSafety[class]++
	o := &Obligation{ID: fmt.Sprintf("%s#%s%d", ex.fnID, class, ex.nSafety[class]), Func: ex.fnID, Kind: class, Props: ex.props, Where: posOf(fr.fn, pos), Detail: detail}
	ex.vc.oblige(o, pc, goal)
}

// execBlock runs the non-terminator instructions. terminated reports that the
// block ends in a panic (or other non-returning construct).
func (ex *Exec) execBlock(fr *Frame, b *ssa.BasicBlock, pc Term, st State) (State, bool) {
	for _, instr := range b.Instrs {
		switch in := instr.(type) {
		case *ssa.Phi, *ssa.DebugRef, *ssa.If, *ssa.Jump, *ssa.Return:
			continue
		case *ssa.Panic:
			ex.safetyObl(fr, "panic", in.Pos(), pc, tFalse, "explicit panic reachable")
			return st, true
		case *ssa.Alloc:
			st = ex.doAlloc(fr, in, pc, st)
		case *ssa.Store:
			a := ex.addrOf(fr, in.Addr)
			v := ex.val(fr, in.Val)
			t := in.Val.Type()
			st = ex.store(st, pc, a, t, v)
			if _, isChan := t.Underlying().(*types.Chan); isChan {
				if fa, ok := in.Addr.(*ssa.FieldAddr); ok {
					// the field now holds this channel: its per-field closed-ness record starts from
					// what is known about the channel value itself
					stT := fa.X.Type().Underlying().(*types.Pointer).Elem()
					key := fmt.Sprintf("G|closed|%s|%d", typeKey(stT), fa.Field)
					gen := ex.get(st, "G|closed", arraySort(SRef, SBool))
					pf := ex.get(st, key, arraySort(SRef, SBool))
					st = st.with(key, ex.vc.def("closedf", sto(pf, v, sel(gen, v, SBool))))
				}
			}
			ex.siteStore(fr, in, pc, st, a, v)
		case *ssa.UnOp:
			st = ex.doUnOp(fr, in, pc, st)
		case *ssa.BinOp:
			fr.vals[in] = ex.vc.def(in.Name(), ex.binop(fr, in, pc))
		case *ssa.FieldAddr:
			ex.doFieldAddr(fr, in, pc, st)
		case *ssa.Field:
			x := ex.val(fr, in.X)
			si := ex.te.structInfo(in.X.Type())
			fr.vals[in] = ex.te.fieldGet(si, x, in.Field)
		case *ssa.IndexAddr:
			ex.doIndexAddr(fr, in, pc, st)
		case *ssa.Index:
			x := ex.val(fr, in.X)
			i := ex.val(fr, in.Index)
			switch xt := in.X.Type().Underlying().(type) {
			case *types.Array:
				inb := and(app(SBool, "<=", intLit(0), i), app(SBool, "<", i, intLit(xt.Len())))
				ex.safetyObl(fr, "bounds", in.Pos(), pc, inb, "array index")
				ex.vc.assume(pc, inb, "index in range")
				fr.vals[in] = sel(x, i, ex.te.sortOf(xt.Elem()))
			default:
				// string index
				fr.vals[in] = ex.freshTyped(pc, in.Name(), in.Type())
			}
		case *ssa.Slice:
			st = ex.doSlice(fr, in, pc, st)
		case *ssa.MakeSlice:
			st = ex.doMakeSlice(fr, in, pc, st)
		case *ssa.MakeClosure:
			fn := in.Fn.(*ssa.Function)
			c := &Closure{Fn: fn}
			for _, bnd := range in.Bindings {
				c.Bindings = append(c.Bindings, ex.val(fr, bnd))
				c.BindAddr = append(c.BindAddr, ex.addrOf(fr, bnd))
			}
			t := ex.te.fnLit(fmt.Sprintf("%s@%d", fn.String(), fr.inst))
			t.Clo = c
			fr.vals[in] = t
		case *ssa.MakeInterface:
			st = ex.doMakeInterface(fr, in, pc, st)
		case *ssa.TypeAssert:
			ex.doTypeAssert(fr, in, pc, st)
		case *ssa.ChangeInterface:
			fr.vals[in] = ex.val(fr, in.X)
		case *ssa.ChangeType:
			v := ex.val(fr, in.X)
			if ex.te.sortOf(in.Type()) != v.Sort {
				v = ex.coerce(v, ex.te.sortOf(in.Type()))
			}
			fr.vals[in] = v
			if a, ok := fr.addrs[in.X]; ok {
				fr.addrs[in] = a
			}
		case *ssa.Convert:
			fr.vals[in] = ex.vc.def(in.Name(), ex.convert(fr, in, pc, st))
		case *ssa.MultiConvert:
			fr.vals[in] = ex.freshTyped(pc, in.Name(), in.Type())
		case *ssa.Extract:
			tup := ex.val(fr, in.Tuple)
			if tup.Tuple != nil && in.Index < len(tup.Tuple) {
				fr.vals[in] = tup.Tuple[in.Index]
			} else {
				fr.vals[in] = ex.freshTyped(pc, in.Name(), in.Type())
			}
		case *ssa.Call:
			var res Term
			var term bool
			st, res, term = ex.doCall(fr, in, in.Common(), pc, st)
			if term {
				return st, true
			}
			if res.ok() {
				fr.vals[in] = res
			}
			ex.assumeAfter(fr, in, pc, st)
			st = ex.ghostAfter(fr, in, pc, st)
		case *ssa.Go:
			ex.vc.note("goroutine spawn skipped: " + posOf(fr.fn, in.Pos()))
			ex.siteCall(fr, in, in.Common(), pc, st)
		case *ssa.Defer:
			fr.defers = append(fr.defers, deferRec{guard: pc, call: in.Common(), instr: in})
		case *ssa.RunDefers:
			st = ex.runDefers(fr, pc, st)
		case *ssa.MakeMap:
			ex.nLoc++
			r := refLoc(ex.nLoc)
			fr.vals[in] = r
			st = ex.mapInit(st, in.Type(), r)
		case *ssa.MakeChan:
			ex.nLoc++
			fr.vals[in] = refLoc(ex.nLoc)
			// a new channel is open
			hc := ex.get(st, "G|closed", arraySort(SRef, SBool))
			st = st.with("G|closed", ex.vc.def("closed", sto(hc, refLoc(ex.nLoc), tFalse)))
		case *ssa.Lookup:
			fr.vals[in] = ex.doLookup(fr, in, pc, st)
		case *ssa.MapUpdate:
			st = ex.doMapUpdate(fr, in, pc, st)
		case *ssa.Range:
			fr.vals[in] = ex.vc.fresh("range", SUnit)
		case *ssa.Next:
			tt := in.Type().(*types.Tuple)
			tup := make([]Term, tt.Len())
			for i := range tup {
				tup[i] = ex.freshTyped(pc, "next", tt.At(i).Type())
			}
			fr.vals[in] = Term{Tuple: tup}
			// ranging over a map: a produced key is in the map and comes with its value
			if rg, ok := in.Iter.(*ssa.Range); ok {
				if mt, isMap := rg.X.Type().Underlying().(*types.Map); isMap && len(tup) == 3 {
					m := ex.val(fr, rg.X)
					dom, val, ln := ex.mapArrays(st, rg.X.Type(), m)
					if tup[1].Sort != ex.te.sortOf(mt.Key()) {
						// the key is not used by the loop (blank identifier): go/ssa gives it no type
						tup[1] = ex.freshTyped(pc, "nextkey", mt.Key())
					}
					fact := and(sel(dom, tup[1], SBool), app(SBool, ">=", ln, intLit(1)))
					if tup[2].Sort == ex.te.sortOf(mt.Elem()) && tup[2].Sort != SUnit {
						fact = and(fact, eq(tup[2], sel(val, tup[1], tup[2].Sort)))
					}
					ex.vc.assume(pc, implies(tup[0], fact), "map iteration yields present keys")
				}
			}
		case *ssa.Select:
			tt := in.Type().(*types.Tuple)
			tup := make([]Term, tt.Len())
			for i := range tup {
				tup[i] = ex.freshTyped(pc, "select", tt.At(i).Type())
			}
			lo := 0
			if !in.Blocking {
				lo = -1
			}
			ex.vc.assume(pc, and(app(SBool, "<=", intLit(int64(lo)), tup[0]), app(SBool, "<", tup[0], intLit(int64(len(in.States))))), "select index")
			fr.vals[in] = Term{Tuple: tup}
			recvIdx := 0
			for i, s := range in.States {
				// a case on a nil channel is never chosen
				if ch := ex.val(fr, s.Chan); ch.Sort == SRef {
					ex.vc.assume(pc, implies(eq(tup[0], intLit(int64(i))), not(eq(ch, tNull))), "select never takes a case on a nil channel")
				}
				if s.Dir == types.SendOnly {
					ex.siteSend(fr, s.Chan, s.Send, s.Pos, pc, st)
				} else {
					if 2+recvIdx < len(tup) {
						ex.recvAssumeValue(fr, s.Chan, and(pc, eq(tup[0], intLit(int64(i)))), st, tup[2+recvIdx])
					}
					recvIdx++
				}
			}
			st = ex.ghostAtSelect(fr, pc, st, tup[0])
		case *ssa.Send:
			ex.siteSend(fr, in.Chan, in.X, in.Pos(), pc, st)
		case *ssa.SliceToArrayPointer:
			s := ex.val(fr, in.X)
			fr.vals[in] = ex.vc.def(in.Name(), refElemBase(s))
			ex.unsupported("slice to array pointer")
		default:
			ex.unsupported(fmt.Sprintf("instruction %T", instr))
			if v, ok := instr.(ssa.Value); ok {
				fr.vals[v] = ex.freshTyped(pc, v.Name(), v.Type())
			}
		}
	}
	return st, false
}

func refElemBase(s Term) Term { return sBase(s) }

func (ex *Exec) freshTyped(pc Term, name string, t types.Type) Term {
	if tt, ok := t.(*types.Tuple); ok {
		tup := make([]Term, tt.Len())
		for i := range tup {
			tup[i] = ex.freshTyped(pc, name, tt.At(i).Type())
		}
		return Term{Tuple: tup}
	}
	v := ex.vc.fresh(name, ex.te.sortOf(t))
	ex.assumeType(pc, v, t)
	return v
}

// assumeType adds the type invariant of a value that comes from outside
// (parameter, heap, call result).
func (ex *Exec) assumeType(pc Term, v Term, t types.Type) {
	if t != nil && isStruct(t) {
		ex.assumeTypeDeep(v, t)
		return
	}
	switch v.Sort {
	case SInt:
		ex.vc.assume(tTrue, inRange(v, t), "type range")
	case SSlice:
		ex.vc.assume(tTrue, and(app(SBool, "<=", intLit(0), sOff(v)), app(SBool, "<=", intLit(0), sLen(v)), app(SBool, "<=", sLen(v), sCap(v)), app(SBool, "<=", sCap(v), T("4611686018427387904", SInt)),
			implies(eq(sBase(v), tNull), eq(v, nilSlice))), "slice shape")
		ex.vc.assume(tTrue, ex.allocatedBefore(sBase(v)), "an incoming slice cannot point into memory allocated later")
	case SRef:
		ex.vc.assume(tTrue, ex.allocatedBefore(v), "an incoming pointer cannot point into memory allocated later")
	case SIface:
		ex.vc.assume(tTrue, ex.allocatedBefore(app(SRef, "ibox", v)), "an incoming interface cannot hold memory allocated later")
	}
}

// allocatedBefore: a value that comes from outside (parameter, heap, call
// result, loop-head state) cannot refer to an allocation this execution makes
// after the point where the value was obtained. Allocation ids grow in
// execution order.
func (ex *Exec) allocatedBefore(r Term) Term {
	return T(fmt.Sprintf("(=> ((_ is loc) (root %s)) (<= (locid (root %s)) %d))", r.S, r.S, ex.nLoc), SBool)
}

func (ex *Exec) doAlloc(fr *Frame, in *ssa.Alloc, pc Term, st State) State {
	el := in.Type().Underlying().(*types.Pointer).Elem()
	if el.String() == "$ssa.deferStack" || strings.Contains(el.String(), "deferStack") {
		fr.locals[in] = &LocalVar{Key: fmt.Sprintf("L|%d|defer", fr.inst), T: types.Typ[types.Int]}
		fr.addrs[in] = &Addr{Local: fr.locals[in], Elem: types.Typ[types.Int]}
		return st
	}
	if !fr.escapes[in] {
		name := in.Comment
		if name == "" {
			name = in.Name()
		}
		lv := &LocalVar{Key: fmt.Sprintf("L|%d|%s|%s", fr.inst, in.Name(), name), T: el, Name: name}
		fr.locals[in] = lv
		fr.addrs[in] = &Addr{Local: lv, Elem: el}
		// the address as a value: only ever passed to inlined callees / spilled into locals
		ex.nLoc++
		pv := refLoc(ex.nLoc)
		pv.LAddr = fr.addrs[in]
		fr.vals[in] = pv
		ex.keySort[lv.Key] = ex.te.sortOf(el)
		return st.with(lv.Key, ex.te.zero(el))
	}
	ex.nLoc++
	r := refLoc(ex.nLoc)
	fr.vals[in] = r
	fr.addrs[in] = &Addr{Ref: r, Elem: el}
	if arr, ok := isArray(el); ok && arr.Len() > 64 {
		if !isStruct(arr.Elem()) {
			k := cellKey(arr.Elem())
			so := arraySort(SRef, ex.te.sortOf(arr.Elem()))
			h := ex.get(st, k, so)
			ex.vc.assume(pc, T(fmt.Sprintf("(forall ((i Int)) (! (= (select %s (elem %s i)) %s) :pattern ((select %s (elem %s i)))))", h.S, r.S, ex.te.zero(arr.Elem()).S, h.S, r.S), SBool), "fresh array zeroed")
		}
		return st
	}
	return ex.store(st, pc, &Addr{Ref: r, Elem: el}, el, ex.te.zero(el))
}

func (ex *Exec) doUnOp(fr *Frame, in *ssa.UnOp, pc Term, st State) State {
	switch in.Op {
	case token.MUL:
		a := ex.addrOf(fr, in.X)
		if strings.Contains(in.Type().String(), "deferStack") {
			fr.vals[in] = intLit(0)
			return st
		}
		if ex.safety["nil"] && a.Local == nil {
			ex.safetyObl(fr, "nil", in.Pos(), pc, not(eq(rootRef(a), tNull)), "nil dereference")
		}
		if gv, ok := in.X.(*ssa.Global); ok && ex.te.sortOf(in.Type()) == SIface {
			if c, isConst := ex.initGlobalValue(gv); isConst {
				fr.vals[in] = c
				break
			}
		}
		v := ex.load(st, pc, a, in.Type())
		if a.Local != nil && len(a.Path) == 0 {
			if cur, ok := st.m[a.Local.Key]; ok && cur.Clo != nil {
				v.Clo = cur.Clo
			}
		}
		nv := ex.vc.def(in.Name(), v)
		nv.Clo = v.Clo
		fr.vals[in] = nv
		if a.Local == nil {
			ex.assumeType(pc, nv, in.Type())
		}
		if gv, ok := in.X.(*ssa.Global); ok && nv.Sort == SIface && ex.g.initNonNil(gv) {
			ex.vc.assume(tTrue, not(eq(app(SInt, "itag", nv), intLit(0))), "package-level error value set once at init")
		}
	case token.NOT:
		fr.vals[in] = not(ex.val(fr, in.X))
	case token.SUB:
		x := ex.val(fr, in.X)
		if x.Sort == SInt {
			fr.vals[in] = ex.vc.def(in.Name(), wrap1(app(SInt, "-", x), in.Type()))
		} else {
			fr.vals[in] = app(x.Sort, "-", x)
		}
	case token.XOR:
		x := ex.val(fr, in.X)
		lo, hi, ok := intRange(in.Type())
		if ok && lo.Sign() == 0 {
			fr.vals[in] = ex.vc.def(in.Name(), app(SInt, "-", bigLit(hi), x))
		} else {
			// signed: ^x == -x-1
			fr.vals[in] = ex.vc.def(in.Name(), app(SInt, "-", app(SInt, "-", x), intLit(1)))
		}
	case token.ARROW:
		// channel receive
		v := ex.freshTyped(pc, in.Name(), in.Type())
		fr.vals[in] = v
		ex.recvAssume(fr, in, pc, st, v)
	default:
		ex.unsupported("unop " + in.Op.String())
		fr.vals[in] = ex.freshTyped(pc, in.Name(), in.Type())
	}
	return st
}

func rootRef(a *Addr) Term {
	if a.IsField {
		return a.Parent
	}
	return a.Ref
}

func pow2(n uint) *big.Int { return new(big.Int).Lsh(big.NewInt(1), n) }

func isMask(c *big.Int) bool {
	m := new(big.Int).Add(c, big.NewInt(1))
	return new(big.Int).And(m, c).Sign() == 0
}

// bitsOf is x & c for a non-negative constant c, as linear arithmetic:
// the sum over the set bits k of c of 2^k * ((x div 2^k) mod 2).
func bitsOf(x Term, c *big.Int) Term {
	var parts []Term
	for k := 0; k < c.BitLen(); k++ {
		if c.Bit(k) == 0 {
			continue
		}
		bit := app(SInt, "mod", app(SInt, "div", x, bigLit(pow2(uint(k)))), intLit(2))
		if k == 0 {
			bit = app(SInt, "mod", x, intLit(2))
		}
		parts = append(parts, app(SInt, "*", bigLit(pow2(uint(k))), bit))
	}
	switch len(parts) {
	case 0:
		return intLit(0)
	case 1:
		return parts[0]
	}
	return app(SInt, "+", parts...)
}

func constInt(v ssa.Value) (*big.Int, bool) {
	c, ok := v.(*ssa.Const)
	if !ok || c.Value == nil {
		return nil, false
	}
	if b, ok := c.Type().Underlying().(*types.Basic); !ok || b.Info()&types.IsInteger == 0 {
		return nil, false
	}
	bi, ok := new(big.Int).SetString(c.Value.ExactString(), 10)
	return bi, ok
}

func (ex *Exec) binop(fr *Frame, in *ssa.BinOp, pc Term) Term {
	x := ex.val(fr, in.X)
	y := ex.val(fr, in.Y)
	switch in.Op {
	case token.EQL, token.NEQ:
		var r Term
		if x.Sort == SIface {
			switch {
			case y.S == nilIface.S:
				r = eq(app(SInt, "itag", x), intLit(0))
			case x.S == nilIface.S:
				r = eq(app(SInt, "itag", y), intLit(0))
			case ex.isFreshErrConst(x) || ex.isFreshErrConst(y):
				// comparison with an error value made by errors.New at init (io.EOF): the dynamic
				// value is a pointer, so the comparison is identity of type and pointer
				r = eq(x, y)
			default:
				ex.unsupported("interface comparison")
				r = ex.vc.fresh("ifaceeq", SBool)
			}
		} else if x.Sort == SFn {
			r = eq(x, y)
		} else if x.Sort != y.Sort {
			r = ex.vc.fresh("cmp", SBool)
		} else {
			r = eq(x, y)
		}
		if in.Op == token.NEQ {
			return not(r)
		}
		return r
	case token.LSS, token.LEQ, token.GTR, token.GEQ:
		op := map[token.Token]string{token.LSS: "<", token.LEQ: "<=", token.GTR: ">", token.GEQ: ">="}[in.Op]
		if x.Sort == SInt || x.Sort == SReal {
			return app(SBool, op, x, y)
		}
		return ex.vc.fresh("strcmp", SBool)
	}
	if x.Sort == SStr && in.Op == token.ADD {
		return app(SStr, "strcat", x, y)
	}
	if x.Sort == SReal {
		switch in.Op {
		case token.ADD:
			return app(SReal, "+", x, y)
		case token.SUB:
			return app(SReal, "-", x, y)
		case token.MUL:
			return app(SReal, "*", x, y)
		case token.QUO:
			return app(SReal, "/", x, y)
		}
	}
	if x.Sort != SInt {
		ex.unsupported("binop on " + string(x.Sort))
		return ex.vc.fresh("binop", ex.te.sortOf(in.Type()))
	}
	rt := in.Type()
	lo, hi, _ := intRange(rt)
	unsigned := lo != nil && lo.Sign() == 0
	cy, yConst := constInt(in.Y)
	cx, xConst := constInt(in.X)
	switch in.Op {
	case token.AND, token.OR, token.XOR, token.AND_NOT:
		// one constant operand: exact, bit by bit of the constant (floor div/mod give the
		// two's-complement bits of negative values as well)
		var cst *big.Int
		var other Term
		switch {
		case yConst && cy.Sign() >= 0 && cy.BitLen() <= 64:
			cst, other = cy, x
		case xConst && cx.Sign() >= 0 && cx.BitLen() <= 64 && in.Op != token.AND_NOT:
			cst, other = cx, y
		}
		if cst != nil && !(in.Op == token.AND && unsigned && isMask(cst)) {
			bits := ex.vc.def("bits", bitsOf(other, cst))
			switch in.Op {
			case token.AND:
				return bits
			case token.OR:
				return wrap(app(SInt, "-", app(SInt, "+", other, bigLit(cst)), bits), rt)
			case token.XOR:
				return wrap(app(SInt, "-", app(SInt, "+", other, bigLit(cst)), app(SInt, "*", intLit(2), bits)), rt)
			case token.AND_NOT:
				return app(SInt, "-", other, bits)
			}
		}
	}
	switch in.Op {
	case token.ADD:
		return wrap1(app(SInt, "+", x, y), rt)
	case token.SUB:
		return wrap1(app(SInt, "-", x, y), rt)
	case token.MUL:
		return wrap(app(SInt, "*", x, y), rt)
	case token.QUO, token.REM:
		nz := not(eq(y, intLit(0)))
		ex.safetyObl(fr, "div", in.Pos(), pc, nz, "division by zero")
		ex.vc.assume(pc, nz, "divisor non-zero")
		var q Term
		if unsigned {
			q = app(SInt, "div", x, y)
		} else {
			ax := ite(app(SBool, ">=", x, intLit(0)), x, app(SInt, "-", x))
			ay := ite(app(SBool, ">=", y, intLit(0)), y, app(SInt, "-", y))
			m := app(SInt, "div", ax, ay)
			gen := wrap1(ite(eq(app(SBool, ">=", x, intLit(0)), app(SBool, ">=", y, intLit(0))), m, app(SInt, "-", m)), rt)
			// common case first so that the solver sees a plain floor division
			q = ite(and(app(SBool, ">=", x, intLit(0)), app(SBool, ">", y, intLit(0))), app(SInt, "div", x, y), ex.vc.def("gendiv", gen))
		}
		if !yConst {
			// variable divisor: hand the solver the multiplicative facts it will not derive itself
			q = ex.vc.def("quo", q)
			prod := app(SInt, "*", y, q)
			ex.vc.assume(tTrue, implies(and(app(SBool, ">=", x, intLit(0)), app(SBool, ">", y, intLit(0))),
				and(app(SBool, "<=", prod, x), app(SBool, "<", x, app(SInt, "+", prod, y)), app(SBool, ">=", q, intLit(0)), app(SBool, "<=", q, x))), "division lemma")
		}
		if in.Op == token.QUO {
			return q
		}
		if unsigned {
			return app(SInt, "mod", x, y)
		}
		qd := ex.vc.def("quo", q)
		return app(SInt, "-", x, app(SInt, "*", y, qd))
	case token.AND:
		if yConst && cy.Sign() >= 0 {
			m := new(big.Int).Add(cy, big.NewInt(1))
			if m.BitLen() > 0 && new(big.Int).And(m, cy).Sign() == 0 && unsigned {
				return app(SInt, "mod", x, bigLit(m))
			}
		}
		r := ex.vc.def("and", app(SInt, "bitand", x, y))
		if unsigned {
			ex.vc.assume(tTrue, and(app(SBool, "<=", intLit(0), r), app(SBool, "<=", r, x), app(SBool, "<=", r, y)), "bitand range")
		} else {
			ex.vc.assume(tTrue, inRange(r, rt), "bitand range")
		}
		return r
	case token.OR, token.XOR, token.AND_NOT:
		name := map[token.Token]string{token.OR: "bitor", token.XOR: "bitxor", token.AND_NOT: "bitandnot"}[in.Op]
		if name == "bitandnot" {
			name = "bitand"
			// x &^ y == x & ^y ; leave ^y abstract through bitxor with all-ones
			y = app(SInt, "-", bigLit(hi), y)
		}
		r := ex.vc.def(name, app(SInt, name, x, y))
		ex.vc.assume(tTrue, inRange(r, rt), name+" range")
		if in.Op == token.OR && unsigned {
			ex.vc.assume(tTrue, and(app(SBool, ">=", r, x), app(SBool, ">=", r, y)), "bitor lower bound")
		}
		return r
	case token.SHL:
		if yConst && cy.IsInt64() && cy.Int64() < 64 {
			return wrap(app(SInt, "*", x, bigLit(pow2(uint(cy.Int64())))), rt)
		}
		r := ex.vc.def("shl", app(SInt, "shl", x, y))
		ex.vc.assume(tTrue, inRange(r, rt), "shl range")
		return r
	case token.SHR:
		if yConst && cy.IsInt64() && cy.Int64() < 64 {
			// floor division is arithmetic shift for both signs
			return app(SInt, "div", x, bigLit(pow2(uint(cy.Int64()))))
		}
		r := ex.vc.def("shr", app(SInt, "shr", x, y))
		ex.vc.assume(tTrue, inRange(r, rt), "shr range")
		if unsigned {
			ex.vc.assume(tTrue, app(SBool, "<=", r, x), "shr upper bound")
		}
		return r
	}
	ex.unsupported("binop " + in.Op.String())
	return ex.vc.fresh("binop", SInt)
}

func (ex *Exec) convert(fr *Frame, in *ssa.Convert, pc Term, st State) Term {
	x := ex.val(fr, in.X)
	from, to := in.X.Type(), in.Type()
	fs, ts := ex.te.sortOf(from), ex.te.sortOf(to)
	switch {
	case fs == SInt && ts == SInt:
		flo, fhi, ok1 := intRange(from)
		tlo, thi, ok2 := intRange(to)
		if !ok1 {
			// untyped constant: wrap unless it fits
			return wrap(x, to)
		}
		if ok2 && flo.Cmp(tlo) >= 0 && fhi.Cmp(thi) <= 0 {
			return x
		}
		return wrap(x, to)
	case fs == SStr && ts == SSlice:
		ex.nLoc++
		b := refLoc(ex.nLoc)
		return mkSlice(b, intLit(0), app(SInt, "strlen", x), app(SInt, "strlen", x))
	case fs == SSlice && ts == SStr:
		// content-dependent; keep the length
		r := ex.vc.fresh("str", SStr)
		ex.vc.assume(tTrue, eq(app(SInt, "strlen", r), sLen(x)), "string(bytes) length")
		return r
	case fs == ts:
		return x
	}
	v := ex.vc.fresh("conv", ts)
	ex.assumeType(pc, v, to)
	return v
}

func (ex *Exec) doFieldAddr(fr *Frame, in *ssa.FieldAddr, pc Term, st State) {
	xt := in.X.Type().Underlying().(*types.Pointer).Elem()
	xa := ex.addrOf(fr, in.X)
	ft := xt.Underlying().(*types.Struct).Field(in.Field).Type()
	if xa.Local != nil {
		si := ex.te.structInfo(xt)
		path := append(append([]pathStep{}, xa.Path...), pathStep{field: in.Field, si: si})
		fr.addrs[in] = &Addr{Local: xa.Local, Path: path, Elem: ft}
		ex.nLoc++
		pv := refLoc(ex.nLoc)
		pv.LAddr = fr.addrs[in]
		fr.vals[in] = pv
		return
	}
	a := ex.fieldAddr(xa.Ref, xt, in.Field)
	fr.addrs[in] = a
	fr.vals[in] = a.Ref
}

func (ex *Exec) doIndexAddr(fr *Frame, in *ssa.IndexAddr, pc Term, st State) {
	i := ex.val(fr, in.Index)
	switch xt := in.X.Type().Underlying().(type) {
	case *types.Slice:
		s := ex.val(fr, in.X)
		inb := and(app(SBool, "<=", intLit(0), i), app(SBool, "<", i, sLen(s)))
		ex.safetyObl(fr, "bounds", in.Pos(), pc, inb, "slice index "+in.X.Name()+"["+in.Index.Name()+"]")
		ex.vc.assume(pc, inb, "index in range")
		r := ex.vc.def(in.Name(), sliceAt(s, i))
		fr.vals[in] = r
		fr.addrs[in] = &Addr{Ref: r, Elem: xt.Elem()}
	case *types.Pointer:
		arr := xt.Elem().Underlying().(*types.Array)
		inb := and(app(SBool, "<=", intLit(0), i), app(SBool, "<", i, intLit(arr.Len())))
		ex.safetyObl(fr, "bounds", in.Pos(), pc, inb, "array index")
		ex.vc.assume(pc, inb, "index in range")
		xa := ex.addrOf(fr, in.X)
		if xa.Local != nil {
			path := append(append([]pathStep{}, xa.Path...), pathStep{isIdx: true, index: i, elSo: ex.te.sortOf(arr.Elem())})
			fr.addrs[in] = &Addr{Local: xa.Local, Path: path, Elem: arr.Elem()}
			ex.nLoc++
			pv := refLoc(ex.nLoc)
			pv.LAddr = fr.addrs[in]
			fr.vals[in] = pv
			return
		}
		r := ex.vc.def(in.Name(), refElem(xa.Ref, i))
		fr.vals[in] = r
		fr.addrs[in] = &Addr{Ref: r, Elem: arr.Elem()}
	default:
		ex.unsupported("indexaddr on " + in.X.Type().String())
		fr.vals[in] = ex.vc.fresh("idx", SRef)
	}
}

func (ex *Exec) doSlice(fr *Frame, in *ssa.Slice, pc Term, st State) State {
	var lo, hi, mx Term
	if in.Low != nil {
		lo = ex.val(fr, in.Low)
	} else {
		lo = intLit(0)
	}
	switch xt := in.X.Type().Underlying().(type) {
	case *types.Slice:
		s := ex.val(fr, in.X)
		if in.High != nil {
			hi = ex.val(fr, in.High)
		} else {
			hi = sLen(s)
		}
		if in.Max != nil {
			mx = ex.val(fr, in.Max)
		} else {
			mx = sCap(s)
		}
		inb := and(app(SBool, "<=", intLit(0), lo), app(SBool, "<=", lo, hi), app(SBool, "<=", hi, mx), app(SBool, "<=", mx, sCap(s)))
		ex.safetyObl(fr, "slice", in.Pos(), pc, inb, "slice bounds")
		ex.vc.assume(pc, inb, "slice bounds")
		sub := ex.vc.def(in.Name(), mkSlice(sBase(s), app(SInt, "+", sOff(s), lo), app(SInt, "-", hi, lo), app(SInt, "-", mx, lo)))
		fr.vals[in] = sub
		// element addresses of the sub-slice and of its parent name the same cells; stated over the
		// arithmetic-free `at` terms so that facts written with either addressing reach the other
		if s.S != sub.S {
			ex.vc.assume(tTrue, T(fmt.Sprintf("(forall ((j Int)) (! (= (at %s j) (at %s (- j %s))) :pattern ((at %s j))))", s.S, sub.S, lo.S, s.S), SBool), "sub-slice addressing (parent to sub)")
			ex.vc.assume(tTrue, T(fmt.Sprintf("(forall ((k Int)) (! (= (at %s k) (at %s (+ k %s))) :pattern ((at %s k))))", sub.S, s.S, lo.S, sub.S), SBool), "sub-slice addressing (sub to parent)")
		}
	case *types.Pointer:
		arr := xt.Elem().Underlying().(*types.Array)
		xa := ex.addrOf(fr, in.X)
		n := intLit(arr.Len())
		if in.High != nil {
			hi = ex.val(fr, in.High)
		} else {
			hi = n
		}
		if in.Max != nil {
			mx = ex.val(fr, in.Max)
		} else {
			mx = n
		}
		inb := and(app(SBool, "<=", intLit(0), lo), app(SBool, "<=", lo, hi), app(SBool, "<=", hi, mx), app(SBool, "<=", mx, n))
		ex.safetyObl(fr, "slice", in.Pos(), pc, inb, "slice bounds")
		ex.vc.assume(pc, inb, "slice bounds")
		if xa.Local != nil {
			ex.unsupported("slice of non-escaping local array")
			fr.vals[in] = ex.freshTyped(pc, in.Name(), in.Type())
			return st
		}
		fr.vals[in] = ex.vc.def(in.Name(), mkSlice(xa.Ref, lo, app(SInt, "-", hi, lo), app(SInt, "-", mx, lo)))
	case *types.Basic:
		// string slicing
		s := ex.val(fr, in.X)
		if in.High != nil {
			hi = ex.val(fr, in.High)
		} else {
			hi = app(SInt, "strlen", s)
		}
		inb := and(app(SBool, "<=", intLit(0), lo), app(SBool, "<=", lo, hi), app(SBool, "<=", hi, app(SInt, "strlen", s)))
		ex.safetyObl(fr, "slice", in.Pos(), pc, inb, "string slice bounds")
		ex.vc.assume(pc, inb, "slice bounds")
		r := ex.vc.fresh("substr", SStr)
		ex.vc.assume(tTrue, eq(app(SInt, "strlen", r), app(SInt, "-", hi, lo)), "substring length")
		fr.vals[in] = r
	default:
		ex.unsupported("slice of " + in.X.Type().String())
		fr.vals[in] = ex.freshTyped(pc, in.Name(), in.Type())
	}
	return st
}

// zeroRange assumes that every cell of a fresh backing array is zero.
func (ex *Exec) zeroFresh(st State, pc Term, base Term, el types.Type) {
	var leaf func(t types.Type, addr func(i string) string)
	leaf = func(t types.Type, addr func(i string) string) {
		if isStruct(t) {
			stt := t.Underlying().(*types.Struct)
			skey := typeKey(t)
			for i := 0; i < stt.NumFields(); i++ {
				ft := stt.Field(i).Type()
				fid := ex.te.fid(skey, i)
				if isStruct(ft) {
					leaf(ft, func(ix string) string { return fmt.Sprintf("(fld %s %d)", addr(ix), fid) })
					continue
				}
				if _, isArr := isArray(ft); isArr {
					continue // arrays inside elements: not zero-modelled
				}
				so := ex.te.sortOf(ft)
				if ex.g.cellMode[fmt.Sprintf("%s#%d", skey, i)] {
					h := ex.get(st, cellKey(ft), arraySort(SRef, so))
					a := fmt.Sprintf("(fld %s %d)", addr("i"), fid)
					ex.vc.assume(pc, T(fmt.Sprintf("(forall ((i Int)) (! (= (select %s %s) %s) :pattern ((select %s %s))))", h.S, a, ex.te.zero(ft).S, h.S, a), SBool), "fresh zero")
					continue
				}
				h := ex.get(st, fieldKey(skey, i), arraySort(SRef, so))
				a := addr("i")
				ex.vc.assume(pc, T(fmt.Sprintf("(forall ((i Int)) (! (= (select %s %s) %s) :pattern ((select %s %s))))", h.S, a, ex.te.zero(ft).S, h.S, a), SBool), "fresh zero")
			}
			return
		}
		if _, isArr := isArray(t); isArr {
			return
		}
		so := ex.te.sortOf(t)
		h := ex.get(st, cellKey(t), arraySort(SRef, so))
		a := addr("i")
		ex.vc.assume(pc, T(fmt.Sprintf("(forall ((i Int)) (! (= (select %s %s) %s) :pattern ((select %s %s))))", h.S, a, ex.te.zero(t).S, h.S, a), SBool), "fresh zero")
	}
	leaf(el, func(ix string) string { return fmt.Sprintf("(elem %s %s)", base.S, ix) })
}

func (ex *Exec) doMakeSlice(fr *Frame, in *ssa.MakeSlice, pc Term, st State) State {
	n := ex.val(fr, in.Len)
	c := ex.val(fr, in.Cap)
	el := in.Type().Underlying().(*types.Slice).Elem()
	okk := and(app(SBool, "<=", intLit(0), n), app(SBool, "<=", n, c))
	ex.safetyObl(fr, "make", in.Pos(), pc, okk, "make size")
	ex.vc.assume(pc, okk, "make size")
	ex.siteMake(fr, in, pc, st, n, c)
	ex.nLoc++
	b := refLoc(ex.nLoc)
	ex.zeroFresh(st, pc, b, el)
	sl := ex.vc.def(in.Name(), mkSlice(b, intLit(0), n, c))
	fr.vals[in] = sl
	// the same fact over the arithmetic-free element addresses used by indexing and specs
	if !isStruct(el) {
		if _, isArr := isArray(el); !isArr {
			so := ex.te.sortOf(el)
			h := ex.get(st, cellKey(el), arraySort(SRef, so))
			ex.vc.assume(pc, T(fmt.Sprintf("(forall ((i Int)) (! (= (select %s (at %s i)) %s) :pattern ((select %s (at %s i)))))", h.S, sl.S, ex.te.zero(el).S, h.S, sl.S), SBool), "fresh zero (slice view)")
		}
	}
	return st
}

func (ex *Exec) doMakeInterface(fr *Frame, in *ssa.MakeInterface, pc Term, st State) State {
	x := ex.val(fr, in.X)
	t := in.X.Type()
	tag := ex.te.tag(t)
	if x.Sort == SRef {
		fr.vals[in] = ex.vc.def(in.Name(), app(SIface, "mkiface", intLit(int64(tag)), x))
		return st
	}
	ex.nLoc++
	box := refLoc(ex.nLoc)
	st = ex.store(st, pc, &Addr{Ref: box, Elem: t}, t, x)
	fr.vals[in] = ex.vc.def(in.Name(), app(SIface, "mkiface", intLit(int64(tag)), box))
	return st
}

func (ex *Exec) doTypeAssert(fr *Frame, in *ssa.TypeAssert, pc Term, st State) {
	x := ex.val(fr, in.X)
	at := in.AssertedType
	var okT, v Term
	if _, isIface := at.Underlying().(*types.Interface); isIface {
		okT = ex.vc.fresh("implements", SBool)
		ex.vc.assume(tTrue, implies(okT, not(eq(app(SInt, "itag", x), intLit(0)))), "nil implements nothing")
		v = x
	} else {
		tag := ex.te.tag(at)
		okT = eq(app(SInt, "itag", x), intLit(int64(tag)))
		if ex.te.sortOf(at) == SRef {
			v = app(SRef, "ibox", x)
		} else {
			v = ex.load(st, pc, &Addr{Ref: app(SRef, "ibox", x), Elem: at}, at)
			v = ex.vc.def("unbox", v)
			ex.assumeType(pc, v, at)
		}
	}
	if in.CommaOk {
		fr.vals[in] = Term{Tuple: []Term{v, okT}}
		return
	}
	ex.safetyObl(fr, "panic", in.Pos(), pc, okT, "type assertion")
	ex.vc.assume(pc, okT, "type assertion succeeded")
	fr.vals[in] = v
}

func (ex *Exec) runDefers(fr *Frame, pc Term, st State) State {
	for i := len(fr.defers) - 1; i >= 0; i-- {
		d := fr.defers[i]
		dpc := ex.vc.def("dpc", and(pc, d.guard))
		if dpc.S == "false" {
			continue
		}
		nst, _, term := ex.doCall(fr, d.instr, d.call, dpc, st)
		if term {
			// deferred call never returns on this path: drop the path
			ex.vc.assume(pc, not(d.guard), "deferred call diverges")
			continue
		}
		st = ex.mergeStates([]inEdge{{cond: d.guard, st: nst}, {cond: not(d.guard), st: st}})
	}
	return st
}

func (ex *Exec) isFreshErrConst(t Term) bool {
	for gv, c := range ex.initGlobals {
		if c.S == t.S && ex.g.freshErr[gv] {
			return true
		}
	}
	return false
}
