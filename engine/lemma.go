package main

import (
	"fmt"
	"go/token"
	"go/types"
	"strings"
)

// Lemma: a universally quantified fact about specification functions, proved
// once by induction on an integer parameter (base and step obligations over an
// arbitrary heap) and then assumed where a contract applies it.
type Lemma struct {
	Name   string
	Params []string
	Types  []string
	Ind    string
	Body   SExpr
	Src    string
	Pkg    string
	Props  []string
	File   string
	Line   int
}

type Apply struct {
	Where string // post, loopN
	Call  *SCall
	Src   string
}

func parseLemma(rest, pkg, path string, line int, props []string) (*Lemma, error) {
	// name(a T, b U) induction n: expr
	j := strings.Index(rest, "(")
	k := strings.Index(rest, ")")
	c := strings.Index(rest, ":")
	if j < 0 || k < j {
		return nil, fmt.Errorf("%s:%d: bad lemma header", path, line)
	}
	// the header ends at the first ':' after the closing parenthesis
	c = strings.Index(rest[k:], ":")
	if c < 0 {
		return nil, fmt.Errorf("%s:%d: lemma needs ': expr'", path, line)
	}
	c += k
	l := &Lemma{Name: strings.TrimSpace(rest[:j]), Pkg: pkg, Props: props, File: path, Line: line}
	for _, p := range splitList(rest[j+1 : k]) {
		f := strings.Fields(p)
		if len(f) < 2 {
			return nil, fmt.Errorf("%s:%d: lemma parameter %q needs a type", path, line, p)
		}
		l.Params = append(l.Params, f[0])
		l.Types = append(l.Types, strings.Join(f[1:], " "))
	}
	mid := strings.Fields(rest[k+1 : c])
	if len(mid) == 2 && mid[0] == "induction" {
		l.Ind = mid[1]
	} else if len(mid) != 0 {
		return nil, fmt.Errorf("%s:%d: expected 'induction <param>' before ':'", path, line)
	}
	l.Src = strings.TrimSpace(rest[c+1:])
	e, err := parseSpec(l.Src)
	if err != nil {
		return nil, fmt.Errorf("%s:%d: %v", path, line, err)
	}
	l.Body = e
	return l, nil
}

func (g *Global) typesPkg(path string) *types.Package {
	for _, p := range g.prog.AllPackages() {
		if p.Pkg.Path() == path {
			return p.Pkg
		}
	}
	return nil
}

// applyLemma evaluates the lemma statement for the given arguments in the
// environment's state; the caller assumes the result.
func (se *SpecEnv) applyLemma(l *Lemma, args []SVal) (Term, error) {
	if len(args) != len(l.Params) {
		return tTrue, fmt.Errorf("lemma %s: %d args, want %d", l.Name, len(args), len(l.Params))
	}
	saved := se.vars
	nv := map[string]SVal{}
	for k, v := range saved {
		nv[k] = v
	}
	for i, p := range l.Params {
		nv[p] = args[i]
	}
	se.vars = nv
	t, err := se.evalBool(l.Body)
	se.vars = saved
	return t, err
}

func (ex *Exec) applyAt(fr *Frame, where string, pc Term, st State, extra map[string]SVal) {
	fc := ex.g.cs.Funcs[fnID(fr.fn)]
	if fc == nil {
		return
	}
	for _, ap := range fc.Applies {
		if ap.Where != where {
			continue
		}
		l := ex.g.cs.Lemmas[fc.Pkg+"."+ap.Call.Fun]
		if l == nil {
			l = ex.g.cs.Lemmas[ap.Call.Fun]
		}
		if l == nil {
			ex.vc.note("apply: unknown lemma " + ap.Call.Fun)
			continue
		}
		se := ex.newSpecEnv(fr, pc, st, fr.entry)
		for k, v := range extra {
			se.vars[k] = v
		}
		args := make([]SVal, len(ap.Call.Args))
		for i, a := range ap.Call.Args {
			args[i] = se.eval(a)
		}
		fact, err := se.applyLemma(l, args)
		if err != nil || se.err != nil {
			ex.vc.note(fmt.Sprintf("apply %s at %s: %v %v", l.Name, where, err, se.err))
			continue
		}
		ex.vc.assume(pc, ex.vc.def("lemma", fact), "lemma "+l.Name+" (proved by induction)")
		ex.lemmasUsed[l.Pkg+"."+l.Name] = true
	}
}

// verifyLemma generates the induction obligations.
func verifyLemma(g *Global, l *Lemma) *FuncResult {
	ex := newExec(g, nil, nil)
	ex.fnID = shortID(l.Pkg) + "#lemma." + l.Name
	fr := &Frame{inst: 1, vals: nil, params: map[string]Term{}, allocBy: nil, callN: map[string]int{}}
	ex.rootFrame = fr
	st := State{m: map[string]Term{}}
	fr.entry = st
	pkg := g.typesPkg(l.Pkg)
	res := &FuncResult{ID: ex.fnID, VC: ex.vc, Arith: "mathematical (spec)"}
	fail := func(msg string) *FuncResult {
		o := &Obligation{ID: ex.fnID, Func: ex.fnID, Kind: "lemma", Props: l.Props, Static: true, Result: "failed", Detail: msg}
		res.Obls = []*Obligation{o}
		return res
	}
	if pkg == nil {
		return fail("package not loaded: " + l.Pkg)
	}
	vars := map[string]SVal{}
	for i, p := range l.Params {
		tv, err := types.Eval(g.prog.Fset, pkg, token.NoPos, l.Types[i])
		if err != nil || tv.Type == nil {
			return fail(fmt.Sprintf("cannot resolve type %q of parameter %s: %v", l.Types[i], p, err))
		}
		v := ex.vc.fresh("l_"+p, ex.te.sortOf(tv.Type))
		if p != l.Ind {
			ex.assumeType(tTrue, v, tv.Type)
		}
		vars[p] = SVal{T: v, Ty: tv.Type}
	}
	eval := func(over map[string]SVal) (Term, error) {
		se := ex.newSpecEnv(fr, tTrue, st, st)
		se.pkg = pkg
		for k, v := range vars {
			se.vars[k] = v
		}
		for k, v := range over {
			se.vars[k] = v
		}
		return se.evalBool(l.Body)
	}
	where := fmt.Sprintf("%s:%d", strings.TrimPrefix(l.File, "/repo/"), l.Line)
	if l.Ind == "" {
		goal, err := eval(nil)
		o := &Obligation{ID: ex.fnID, Func: ex.fnID, Kind: "lemma", Props: l.Props, Where: where}
		if err != nil {
			o.Detail = "spec error: " + err.Error()
			goal = tFalse
		}
		ex.vc.oblige(o, tTrue, goal)
	} else {
		n := vars[l.Ind].T
		pn, err := eval(nil)
		prev, err2 := eval(map[string]SVal{l.Ind: {T: app(SInt, "-", n, intLit(1))}})
		ob := &Obligation{ID: ex.fnID + ".base", Func: ex.fnID, Kind: "lemma.base", Props: l.Props, Where: where}
		os := &Obligation{ID: ex.fnID + ".step", Func: ex.fnID, Kind: "lemma.step", Props: l.Props, Where: where}
		if err != nil || err2 != nil {
			ob.Detail = fmt.Sprintf("spec error: %v %v", err, err2)
			pn, prev = tFalse, tTrue
		}
		pn = ex.vc.def("Pn", pn)
		prev = ex.vc.def("Pprev", prev)
		// two independent goals: neither may use the other as a hypothesis
		ex.vc.seq++
		ob.pos, ob.pc, ob.goal = ex.vc.seq, app(SBool, "<=", n, intLit(0)), pn
		ex.vc.obls = append(ex.vc.obls, ob)
		ex.vc.seq++
		os.pos, os.pc, os.goal = ex.vc.seq, and(app(SBool, ">=", n, intLit(1)), prev), pn
		ex.vc.obls = append(ex.vc.obls, os)
	}
	ex.vc.preamble = append([]string{basePreamble}, ex.te.declText()...)
	ex.vc.preamble = append(ex.vc.preamble, ex.ufunDecl...)
	ex.vc.preamble = append(ex.vc.preamble, ex.te.strAxioms()...)
	res.Obls = ex.vc.obls
	res.Notes = ex.vc.notes
	return res
}
