package main

import (
	"fmt"
	"go/types"
	"math/big"
	"os"
	"regexp"
	"strings"
	"sync"
)

// TypeEnv maps Go types to SMT sorts and heap keys. One per VC.
type TypeEnv struct {
	structs map[string]*StructInfo
	order   []*StructInfo
	fids    map[string]int
	fidName []string
	tags    map[string]int
	tagType []types.Type
	strs    map[string]int
	fns     map[string]int
	glob    *Global
}

type StructInfo struct {
	Key    string
	Sort   Sort
	T      *types.Struct
	Fields []Sort
}

func newTypeEnv(g *Global) *TypeEnv {
	return &TypeEnv{structs: map[string]*StructInfo{}, fids: map[string]int{}, tags: map[string]int{}, strs: map[string]int{"": 0}, fns: map[string]int{}, glob: g, fidName: []string{""}, tagType: []types.Type{nil}}
}

var aliasRe = regexp.MustCompile(`\b(byte|rune|any)\b`)
var typeKeyCache sync.Map

// typeKey is the canonical name of a type: byte/rune/any are spelled as the
// types they alias so that []byte and []uint8 share one heap key.
func typeKey(t types.Type) string {
	if s, ok := typeKeyCache.Load(t); ok {
		return s.(string)
	}
	s := types.TypeString(t, func(p *types.Package) string { return p.Path() })
	s = aliasRe.ReplaceAllStringFunc(s, func(m string) string {
		switch m {
		case "byte":
			return "uint8"
		case "rune":
			return "int32"
		}
		return "interface{}"
	})
	typeKeyCache.Store(t, s)
	return s
}

// opaqueScalar reports named library types that are modelled as scalars.
func opaqueScalar(t types.Type) (Sort, bool) {
	n, ok := types.Unalias(t).(*types.Named)
	if !ok || n.Obj().Pkg() == nil {
		return "", false
	}
	switch n.Obj().Pkg().Path() {
	case "sync/atomic":
		switch n.Obj().Name() {
		case "Int32", "Int64", "Uint32", "Uint64", "Uintptr":
			return SInt, true
		case "Bool":
			return SBool, true
		case "Pointer":
			return SRef, true
		case "Value":
			return SIface, true
		}
	case "sync":
		switch n.Obj().Name() {
		case "Mutex", "RWMutex", "WaitGroup", "Once":
			return SUnit, true
		}
	}
	return "", false
}

func atomicIntRange(t types.Type) (lo, hi *big.Int, ok bool) {
	n, isN := types.Unalias(t).(*types.Named)
	if !isN || n.Obj().Pkg() == nil || n.Obj().Pkg().Path() != "sync/atomic" {
		return nil, nil, false
	}
	switch n.Obj().Name() {
	case "Int32":
		return intRange(types.Typ[types.Int32])
	case "Int64":
		return intRange(types.Typ[types.Int64])
	case "Uint32":
		return intRange(types.Typ[types.Uint32])
	case "Uint64", "Uintptr":
		return intRange(types.Typ[types.Uint64])
	}
	return nil, nil, false
}

func (te *TypeEnv) sortOf(t types.Type) Sort {
	if s, ok := opaqueScalar(t); ok {
		return s
	}
	switch u := t.Underlying().(type) {
	case *types.Basic:
		switch {
		case u.Info()&types.IsBoolean != 0:
			return SBool
		case u.Info()&types.IsInteger != 0:
			return SInt
		case u.Info()&types.IsString != 0:
			return SStr
		case u.Info()&types.IsFloat != 0:
			return SReal
		case u.Kind() == types.UnsafePointer:
			return SRef
		case u.Kind() == types.UntypedNil:
			return SRef
		}
		return SInt
	case *types.Pointer, *types.Map, *types.Chan:
		return SRef
	case *types.Signature:
		return SFn
	case *types.Slice:
		return SSlice
	case *types.Array:
		return arraySort(SInt, te.sortOf(u.Elem()))
	case *types.Struct:
		return te.structInfo(t).Sort
	case *types.Interface:
		return SIface
	case *types.Tuple:
		return SUnit
	}
	return SInt
}

func (te *TypeEnv) structInfo(t types.Type) *StructInfo {
	k := typeKey(t)
	if si, ok := te.structs[k]; ok {
		return si
	}
	st := t.Underlying().(*types.Struct)
	si := &StructInfo{Key: k, T: st}
	te.structs[k] = si
	si.Sort = Sort(fmt.Sprintf("S%d", len(te.structs)))
	for i := 0; i < st.NumFields(); i++ {
		si.Fields = append(si.Fields, te.sortOf(st.Field(i).Type()))
	}
	te.order = append(te.order, si) // dependencies were appended during the loop above
	return si
}

func (te *TypeEnv) declText() []string {
	var out []string
	for _, si := range te.order {
		var b strings.Builder
		fmt.Fprintf(&b, "(declare-datatypes ((%s 0)) (((mk_%s", si.Sort, si.Sort)
		for i, fs := range si.Fields {
			fmt.Fprintf(&b, " (%s_f%d %s)", si.Sort, i, fs)
		}
		b.WriteString(")))) ; " + si.Key)
		out = append(out, b.String())
	}
	return out
}

func (te *TypeEnv) fieldGet(si *StructInfo, v Term, i int) Term {
	return app(si.Fields[i], fmt.Sprintf("%s_f%d", si.Sort, i), v)
}

func (te *TypeEnv) fieldSet(si *StructInfo, v Term, i int, nv Term) Term {
	args := make([]Term, len(si.Fields))
	for j := range si.Fields {
		if j == i {
			args[j] = nv
		} else {
			args[j] = te.fieldGet(si, v, j)
		}
	}
	return app(si.Sort, "mk_"+string(si.Sort), args...)
}

func (te *TypeEnv) mkStruct(si *StructInfo, fs []Term) Term {
	if len(fs) == 0 {
		return T("mk_"+string(si.Sort), si.Sort)
	}
	return app(si.Sort, "mk_"+string(si.Sort), fs...)
}

func (te *TypeEnv) fid(structKey string, i int) int {
	k := fmt.Sprintf("%s#%d", structKey, i)
	if id, ok := te.fids[k]; ok {
		return id
	}
	id := len(te.fidName)
	te.fids[k] = id
	te.fidName = append(te.fidName, k)
	return id
}

func (te *TypeEnv) tag(t types.Type) int {
	k := typeKey(t)
	if id, ok := te.tags[k]; ok {
		return id
	}
	id := len(te.tagType)
	te.tags[k] = id
	te.tagType = append(te.tagType, t)
	if os.Getenv("RAINVC_DEBUG") != "" {
		fmt.Fprintf(os.Stderr, "tag %d = %s\n", id, k)
	}
	return id
}

func (te *TypeEnv) strLit(s string) Term {
	id, ok := te.strs[s]
	if !ok {
		id = len(te.strs)
		te.strs[s] = id
	}
	return T(fmt.Sprintf("(strlit %d)", id), SStr)
}

func (te *TypeEnv) fnLit(name string) Term {
	id, ok := te.fns[name]
	if !ok {
		id = len(te.fns) + 1
		te.fns[name] = id
	}
	return T(fmt.Sprintf("(fnlit %d)", id), SFn)
}

// strAxioms: literal lengths and distinctness.
func (te *TypeEnv) strAxioms() []string {
	var out []string
	inv := make([]string, len(te.strs))
	for s, id := range te.strs {
		inv[id] = s
	}
	for id, s := range inv {
		out = append(out, fmt.Sprintf("(assert (= (strlen (strlit %d)) %d))", id, len(s)))
	}
	if len(inv) > 1 {
		var b strings.Builder
		b.WriteString("(assert (distinct")
		for id := range inv {
			fmt.Fprintf(&b, " (strlit %d)", id)
		}
		b.WriteString("))")
		out = append(out, b.String())
	}
	out = append(out, "(assert (forall ((s Str)) (! (>= (strlen s) 0) :pattern ((strlen s)))))")
	return out
}

func (te *TypeEnv) zero(t types.Type) Term {
	if s, ok := opaqueScalar(t); ok {
		return zeroOfSort(s)
	}
	switch u := t.Underlying().(type) {
	case *types.Struct:
		si := te.structInfo(t)
		fs := make([]Term, u.NumFields())
		for i := range fs {
			fs[i] = te.zero(u.Field(i).Type())
		}
		return te.mkStruct(si, fs)
	case *types.Array:
		el := te.zero(u.Elem())
		so := te.sortOf(t)
		return T(fmt.Sprintf("((as const %s) %s)", so, el.S), so)
	}
	return zeroOfSort(te.sortOf(t))
}

func zeroOfSort(s Sort) Term {
	switch s {
	case SInt:
		return intLit(0)
	case SBool:
		return tFalse
	case SRef:
		return tNull
	case SStr:
		return T("(strlit 0)", SStr)
	case SSlice:
		return nilSlice
	case SIface:
		return nilIface
	case SFn:
		return T("fnnil", SFn)
	case SReal:
		return T("0.0", SReal)
	case SUnit:
		return T("unit", SUnit)
	}
	panic("zeroOfSort " + string(s))
}

func intRange(t types.Type) (lo, hi *big.Int, ok bool) {
	if l, h, ok := atomicIntRange(t); ok {
		return l, h, true
	}
	b, isB := t.Underlying().(*types.Basic)
	if !isB || b.Info()&types.IsInteger == 0 {
		return nil, nil, false
	}
	var w uint
	signed := b.Info()&types.IsUnsigned == 0
	switch b.Kind() {
	case types.Int8, types.Uint8:
		w = 8
	case types.Int16, types.Uint16:
		w = 16
	case types.Int32, types.Uint32:
		w = 32
	case types.Int64, types.Uint64, types.Int, types.Uint, types.Uintptr:
		w = 64
	case types.UntypedInt, types.UntypedRune:
		return nil, nil, false
	default:
		return nil, nil, false
	}
	one := big.NewInt(1)
	if signed {
		hi = new(big.Int).Sub(new(big.Int).Lsh(one, w-1), one)
		lo = new(big.Int).Neg(new(big.Int).Lsh(one, w-1))
	} else {
		lo = big.NewInt(0)
		hi = new(big.Int).Sub(new(big.Int).Lsh(one, w), one)
	}
	return lo, hi, true
}

func intWidth(t types.Type) (w uint, signed bool) {
	lo, hi, ok := intRange(t)
	if !ok {
		return 64, true
	}
	return uint(hi.BitLen()) + uint(lo.Sign()*-1), lo.Sign() < 0
}

// inRange gives the type invariant of an integer-typed value.
func inRange(v Term, t types.Type) Term {
	lo, hi, ok := intRange(t)
	if !ok || v.Sort != SInt {
		return tTrue
	}
	return and(app(SBool, "<=", bigLit(lo), v), app(SBool, "<=", v, bigLit(hi)))
}

// wrap normalises a mathematical integer into the range of t (two's complement).
func wrap(v Term, t types.Type) Term {
	lo, hi, ok := intRange(t)
	if !ok {
		return v
	}
	m := new(big.Int).Add(new(big.Int).Sub(hi, lo), big.NewInt(1))
	if lo.Sign() == 0 {
		return app(SInt, "mod", v, bigLit(m))
	}
	// signed: ((v - lo) mod m) + lo
	return app(SInt, "+", app(SInt, "mod", app(SInt, "-", v, bigLit(lo)), bigLit(m)), bigLit(lo))
}

// wrap1 is the cheap form for results that overflow by at most one modulus
// (add/sub of in-range operands).
func wrap1(v Term, t types.Type) Term {
	lo, hi, ok := intRange(t)
	if !ok {
		return v
	}
	m := bigLit(new(big.Int).Add(new(big.Int).Sub(hi, lo), big.NewInt(1)))
	return ite(app(SBool, ">", v, bigLit(hi)), app(SInt, "-", v, m), ite(app(SBool, "<", v, bigLit(lo)), app(SInt, "+", v, m), v))
}

func isPointerToStruct(t types.Type) (types.Type, bool) {
	p, ok := t.Underlying().(*types.Pointer)
	if !ok {
		return nil, false
	}
	if _, ok := p.Elem().Underlying().(*types.Struct); ok {
		if _, op := opaqueScalar(p.Elem()); op {
			return nil, false
		}
		return p.Elem(), true
	}
	return nil, false
}

func isStruct(t types.Type) bool {
	if _, op := opaqueScalar(t); op {
		return false
	}
	_, ok := t.Underlying().(*types.Struct)
	return ok
}

func isArray(t types.Type) (*types.Array, bool) {
	a, ok := t.Underlying().(*types.Array)
	return a, ok
}
