package main

import (
	"fmt"
	"math/big"
	"regexp"
	"sort"
	"strings"
	"sync"
)

// Sort is an SMT-LIB sort, written out.
type Sort string

const (
	SInt   Sort = "Int"
	SBool  Sort = "Bool"
	SRef   Sort = "Ref"
	SStr   Sort = "Str"
	SSlice Sort = "Slice"
	SIface Sort = "Iface"
	SFn    Sort = "Fn"
	SReal  Sort = "Real"
	SUnit  Sort = "Unit"
)

func arraySort(idx, el Sort) Sort { return Sort("(Array " + string(idx) + " " + string(el) + ")") }

// Term is an SMT term (as text) plus Go-side payloads that never reach the
// solver (closures, tuples).
type Term struct {
	S     string
	Sort  Sort
	Clo   *Closure // statically known function value
	Tuple []Term   // multi-value
	LAddr *Addr    // pointer to a non-escaping local (never stored in the heap model)
	Lost  bool     // a pointer-to-local payload was lost in a merge: using it is outside the subset
}

func (t Term) String() string { return t.S }
func (t Term) ok() bool       { return t.S != "" || t.Tuple != nil || t.Clo != nil }

func T(s string, so Sort) Term { return Term{S: s, Sort: so} }

var (
	tTrue  = T("true", SBool)
	tFalse = T("false", SBool)
	tNull  = T("null", SRef)
)

func intLit(v int64) Term {
	if v < 0 {
		return T(fmt.Sprintf("(- %d)", -v), SInt)
	}
	return T(fmt.Sprintf("%d", v), SInt)
}

func bigLit(v *big.Int) Term {
	if v.Sign() < 0 {
		return T("(- "+new(big.Int).Neg(v).String()+")", SInt)
	}
	return T(v.String(), SInt)
}

func app(so Sort, op string, args ...Term) Term {
	var b strings.Builder
	b.WriteByte('(')
	b.WriteString(op)
	for _, a := range args {
		b.WriteByte(' ')
		if a.S == "" {
			panic("empty term in " + op)
		}
		b.WriteString(a.S)
	}
	b.WriteByte(')')
	return T(b.String(), so)
}

func and(ts ...Term) Term {
	var xs []Term
	for _, t := range ts {
		if t.S == "true" {
			continue
		}
		if t.S == "false" {
			return tFalse
		}
		xs = append(xs, t)
	}
	switch len(xs) {
	case 0:
		return tTrue
	case 1:
		return xs[0]
	}
	return app(SBool, "and", xs...)
}

func or(ts ...Term) Term {
	var xs []Term
	for _, t := range ts {
		if t.S == "false" {
			continue
		}
		if t.S == "true" {
			return tTrue
		}
		xs = append(xs, t)
	}
	switch len(xs) {
	case 0:
		return tFalse
	case 1:
		return xs[0]
	}
	return app(SBool, "or", xs...)
}

func not(t Term) Term {
	switch t.S {
	case "true":
		return tFalse
	case "false":
		return tTrue
	}
	if strings.HasPrefix(t.S, "(not ") {
		return T(t.S[5:len(t.S)-1], SBool)
	}
	return app(SBool, "not", t)
}

func implies(a, b Term) Term {
	if a.S == "true" {
		return b
	}
	if a.S == "false" || b.S == "true" {
		return tTrue
	}
	return app(SBool, "=>", a, b)
}

func eq(a, b Term) Term {
	if a.S == b.S {
		return tTrue
	}
	return app(SBool, "=", a, b)
}

func ite(c, a, b Term) Term {
	if c.S == "true" {
		return a
	}
	if c.S == "false" {
		return b
	}
	if a.S == b.S {
		return a
	}
	r := app(a.Sort, "ite", c, a, b)
	if a.Clo != nil && a.Clo == b.Clo {
		r.Clo = a.Clo
	}
	if a.LAddr != nil || b.LAddr != nil || a.Lost || b.Lost {
		if a.LAddr == b.LAddr && !a.Lost && !b.Lost {
			r.LAddr = a.LAddr
		} else {
			r.Lost = true
		}
	}
	return r
}

func sel(arr, idx Term, el Sort) Term { return app(el, "select", arr, idx) }
func sto(arr, idx, v Term) Term       { return app(arr.Sort, "store", arr, idx, v) }

// Ref constructors.
func refLoc(k int) Term        { return T(fmt.Sprintf("(loc %d)", k), SRef) }
func refFld(p Term, fid int) Term {
	return T(fmt.Sprintf("(fld %s %d)", p.S, fid), SRef)
}
func refElem(b, i Term) Term { return app(SRef, "elem", b, i) }

// sliceAt is the address of element i of slice s. It is an uninterpreted
// function tied to elem(sbase s, soff s + i) by an axiom, so that quantified
// specifications can use it as an arithmetic-free trigger.
func sliceAt(s, i Term) Term { return app(SRef, "at", s, i) }

func mkSlice(base, off, ln, cp Term) Term { return app(SSlice, "mkslice", base, off, ln, cp) }
func sBase(s Term) Term                  { return app(SRef, "sbase", s) }
func sOff(s Term) Term                   { return app(SInt, "soff", s) }
func sLen(s Term) Term                   { return app(SInt, "slen", s) }
func sCap(s Term) Term                   { return app(SInt, "scap", s) }

var nilSlice = T("(mkslice null 0 0 0)", SSlice)
var nilIface = T("(mkiface 0 null)", SIface)

// VC accumulates declarations, assumptions and obligations for one function
// under contract.
type VC struct {
	defined map[string]bool
	preamble []string // datatype / sort declarations (fixed)
	decls    []string // define-fun / declare-const in program order
	n        int
	seq      int // position counter shared by assumptions and obligations
	assumes  []assumption
	obls     []*Obligation
	covers   []*Obligation
	notes    []string // abstractions applied, recorded for evidence
	noteSet  map[string]bool
	declName []string
	declSyms [][]string
	declIdx  map[string]int
	once     sync.Once
}

type assumption struct {
	pos  int
	pc   Term
	fact Term
	what string
}

// Obligation is one labelled proof goal.
type Obligation struct {
	ID     string // pkg.func#label
	Func   string
	Kind   string // ensures, invariant.init, invariant.step, pre, site, bounds, panic, decreases, cover, frame
	Props  []string
	pos    int
	pc     Term
	goal   Term
	Where  string // source position
	SMT    string // full query text (filled at discharge)
	Result string // proved, failed, unknown, timeout
	Solver string
	TimeS  float64
	Output string
	Model  string
	Static bool // decided by SSA scan rather than SMT
	Detail string
	Cover  bool // vacuity cover: expected sat
	replayed bool
}

func newVC() *VC { return &VC{noteSet: map[string]bool{}} }

func (vc *VC) note(s string) {
	if !vc.noteSet[s] {
		vc.noteSet[s] = true
		vc.notes = append(vc.notes, s)
	}
}

func sanitize(s string) string {
	var b strings.Builder
	for _, r := range s {
		if r >= 'a' && r <= 'z' || r >= 'A' && r <= 'Z' || r >= '0' && r <= '9' || r == '_' {
			b.WriteRune(r)
		} else {
			b.WriteByte('_')
		}
	}
	return b.String()
}

func isAtom(s string) bool { return !strings.ContainsAny(s, " (") }

// def names a term so that it is shared in the query text.
func (vc *VC) def(prefix string, t Term) Term {
	if t.S == "" {
		return t
	}
	if isAtom(t.S) || len(t.S) < 24 {
		return t
	}
	vc.n++
	name := fmt.Sprintf("%s!%d", sanitize(prefix), vc.n)
	vc.decls = append(vc.decls, fmt.Sprintf("(define-fun %s () %s %s)", name, t.Sort, t.S))
	if vc.defined == nil {
		vc.defined = map[string]bool{}
	}
	vc.defined[name] = true
	r := t
	r.S = name
	return r
}

// isDefined: the name is a define-fun abbreviation (expanded by the solver), not a constant.
func (vc *VC) isDefined(name string) bool { return vc.defined[name] }

func (vc *VC) fresh(prefix string, so Sort) Term {
	vc.n++
	name := fmt.Sprintf("%s!%d", sanitize(prefix), vc.n)
	vc.decls = append(vc.decls, fmt.Sprintf("(declare-const %s %s)", name, so))
	return T(name, so)
}

func (vc *VC) assume(pc, fact Term, what string) {
	if fact.S == "true" {
		return
	}
	vc.seq++
	vc.assumes = append(vc.assumes, assumption{pos: vc.seq, pc: pc, fact: fact, what: what})
}

func (vc *VC) oblige(o *Obligation, pc, goal Term) {
	vc.seq++
	o.pos = vc.seq
	o.pc = pc
	o.goal = goal
	vc.obls = append(vc.obls, o)
	// later obligations may rely on earlier ones
	vc.assumes = append(vc.assumes, assumption{pos: vc.seq, pc: pc, fact: goal, what: "asserted:" + o.ID})
}

func (vc *VC) cover(o *Obligation, pc Term) {
	vc.seq++
	o.pos = vc.seq
	o.pc = pc
	o.goal = tFalse
	o.Cover = true
	vc.covers = append(vc.covers, o)
}

var symRe = regexp.MustCompile(`[A-Za-z0-9_]+![0-9]+`)

func symsOf(s string) []string { return symRe.FindAllString(s, -1) }

// query renders the SMT-LIB text that is unsat iff the obligation holds.
// Only the cone of influence of the goal is emitted: definitions and
// assumptions that share no symbol (transitively) with the goal and its path
// condition are dropped, which only weakens the hypotheses.
func (vc *VC) query(o *Obligation, withModel bool) string {
	vc.once.Do(func() {
		vc.declName = make([]string, len(vc.decls))
		vc.declSyms = make([][]string, len(vc.decls))
		vc.declIdx = map[string]int{}
		for i, d := range vc.decls {
			f := strings.Fields(d)
			name := ""
			if len(f) > 1 {
				name = f[1]
			}
			vc.declName[i] = name
			vc.declIdx[name] = i
			rest := d
			if k := strings.Index(d, name); k >= 0 {
				rest = d[k+len(name):]
			}
			vc.declSyms[i] = symsOf(rest)
		}
	})
	type asm struct {
		text string
		syms []string
		what string
	}
	var cand []asm
	for _, a := range vc.assumes {
		if a.pos >= o.pos {
			break
		}
		t := implies(a.pc, a.fact).S
		cand = append(cand, asm{t, symsOf(t), a.what})
	}
	// union-find over symbols: a definition links its name with the symbols of
	// its body, an assumption links all symbols it mentions. The cone is the
	// union of the components of the goal's and the path condition's symbols.
	parent := map[string]string{}
	var find func(s string) string
	find = func(s string) string {
		p, ok := parent[s]
		if !ok {
			parent[s] = s
			return s
		}
		if p == s {
			return s
		}
		r := find(p)
		parent[s] = r
		return r
	}
	union := func(a, b string) {
		ra, rb := find(a), find(b)
		if ra != rb {
			parent[ra] = rb
		}
	}
	for i, name := range vc.declName {
		for _, s := range vc.declSyms[i] {
			union(name, s)
		}
	}
	for _, c := range cand {
		for _, s := range c.syms[min(1, len(c.syms)):] {
			union(c.syms[0], s)
		}
	}
	roots := map[string]bool{}
	goalSyms := symsOf(o.pc.S)
	if !o.Cover {
		goalSyms = append(goalSyms, symsOf(o.goal.S)...)
	}
	for _, s := range goalSyms {
		roots[find(s)] = true
	}
	need := map[string]bool{}
	for _, name := range vc.declName {
		if roots[find(name)] {
			need[name] = true
		}
	}
	usedAsm := make([]bool, len(cand))
	for i, c := range cand {
		usedAsm[i] = len(c.syms) == 0 || roots[find(c.syms[0])]
	}
	var b strings.Builder
	b.WriteString("(set-option :produce-models true)\n(set-logic ALL)\n")
	for _, p := range vc.preamble {
		b.WriteString(p)
		b.WriteByte('\n')
	}
	for i, d := range vc.decls {
		if need[vc.declName[i]] || !strings.Contains(vc.declName[i], "!") {
			b.WriteString(d)
			b.WriteByte('\n')
		}
	}
	for i, c := range cand {
		if !usedAsm[i] {
			continue
		}
		b.WriteString("(assert ")
		b.WriteString(c.text)
		b.WriteString(") ; ")
		b.WriteString(c.what)
		b.WriteByte('\n')
	}
	b.WriteString("(assert " + o.pc.S + ")\n")
	if !o.Cover {
		b.WriteString("(assert (not " + o.goal.S + "))\n")
	}
	b.WriteString("(check-sat)\n")
	if withModel {
		b.WriteString("(get-model)\n")
	}
	return b.String()
}

const basePreamble = `(declare-datatypes ((Ref 0)) (((null) (obj (objid Int)) (loc (locid Int)) (fld (fparent Ref) (fid Int)) (elem (ebase Ref) (eidx Int)))))
(declare-datatypes ((Slice 0)) (((mkslice (sbase Ref) (soff Int) (slen Int) (scap Int)))))
(declare-datatypes ((Iface 0)) (((mkiface (itag Int) (ibox Ref)))))
(define-fun-rec root ((r Ref)) Ref (ite ((_ is fld) r) (root (fparent r)) (ite ((_ is elem) r) (root (ebase r)) r)))
(declare-fun at (Slice Int) Ref)
(assert (forall ((s Slice) (i Int)) (! (= (at s i) (elem (sbase s) (+ (soff s) i))) :pattern ((at s i)))))
(declare-sort Str 0)
(declare-sort Fn 0)
(declare-datatypes ((Unit 0)) (((unit))))
(declare-datatypes ((Fuel 0)) (((FZ) (FS (fpred Fuel)))))
(declare-fun strlen (Str) Int)
(declare-fun strlit (Int) Str)
(declare-fun strcat (Str Str) Str)
(declare-fun strbytes (Str) Slice)
(declare-fun bytesstr (Slice) Str)
(declare-fun bitand (Int Int) Int)
(assert (forall ((x Int)) (! (= (bitand x 1) (mod x 2)) :pattern ((bitand x 1)))))
(assert (forall ((x Int)) (! (= (bitand x 2) (* 2 (mod (div x 2) 2))) :pattern ((bitand x 2)))))
(assert (forall ((x Int)) (! (= (bitand x 3) (mod x 4)) :pattern ((bitand x 3)))))
(assert (forall ((x Int) (y Int)) (! (= (bitand x y) (bitand y x)) :pattern ((bitand x y)))))
(declare-fun bitor (Int Int) Int)
(declare-fun bitxor (Int Int) Int)
(declare-fun shl (Int Int) Int)
(declare-fun shr (Int Int) Int)
(declare-fun fnlit (Int) Fn)
(declare-fun fnnil () Fn)
`

func sortedKeys[V any](m map[string]V) []string {
	ks := make([]string, 0, len(m))
	for k := range m {
		ks = append(ks, k)
	}
	sort.Strings(ks)
	return ks
}
