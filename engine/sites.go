package main

import (
	"regexp"
	"fmt"
	"go/token"
	"go/types"
	"strings"

	"golang.org/x/tools/go/ssa"
)

func typeShort(t types.Type) string {
	s := types.TypeString(t, func(p *types.Package) string { return strings.TrimPrefix(p.Path(), modPrefix) })
	return aliasRe.ReplaceAllStringFunc(s, func(m string) string {
		switch m {
		case "byte":
			return "uint8"
		case "rune":
			return "int32"
		}
		return "interface{}"
	})
}

// staticClosure resolves `f := func(){...}; f()` patterns: a call through a
// local that is assigned exactly one function literal.
func staticClosure(v ssa.Value) *ssa.Function {
	if fn := closureFn(v); fn != nil {
		return fn
	}
	u, ok := v.(*ssa.UnOp)
	if !ok || u.Op != token.MUL {
		return nil
	}
	al, ok := u.X.(*ssa.Alloc)
	if !ok {
		// captured func variable
		return nil
	}
	var found *ssa.Function
	n := 0
	refs := al.Referrers()
	if refs == nil {
		return nil
	}
	for _, r := range *refs {
		if s, ok := r.(*ssa.Store); ok && s.Addr == al {
			n++
			found = closureFn(s.Val)
		}
	}
	if n == 1 {
		return found
	}
	return nil
}

func calleeNames(c *ssa.CallCommon) []string {
	var out []string
	if bi, ok := c.Value.(*ssa.Builtin); ok {
		return []string{"builtin:" + bi.Name()}
	}
	if c.IsInvoke() {
		out = append(out, "invoke:"+c.Method.Name(), "invoke."+c.Method.Name())
		out = append(out, typeShort(c.Value.Type())+"."+c.Method.Name())
		if n, ok := types.Unalias(c.Value.Type()).(*types.Named); ok {
			out = append(out, n.Obj().Name()+"."+c.Method.Name())
		}
		return out
	}
	callee := c.StaticCallee()
	if callee == nil {
		callee = staticClosure(c.Value)
	}
	if callee == nil {
		return []string{"dynamic"}
	}
	id := fnID(callee)
	out = append(out, id, shortID(id), callee.Name())
	if callee.Pkg != nil {
		out = append(out, callee.Pkg.Pkg.Name()+"."+callee.RelString(callee.Pkg.Pkg))
		out = append(out, callee.RelString(callee.Pkg.Pkg))
	} else if callee.Origin() != nil && callee.Origin().Pkg != nil {
		o := callee.Origin()
		out = append(out, o.Pkg.Pkg.Name()+"."+o.RelString(o.Pkg.Pkg), shortID(fnID(o)))
	}
	return out
}

func (ex *Exec) siteSpecs(kind string) []*SiteSpec {
	if ex.fc == nil {
		return nil
	}
	var out []*SiteSpec
	for _, s := range ex.fc.Sites {
		if s.Kind == kind {
			out = append(out, s)
		}
	}
	return out
}

func (ex *Exec) siteOblige(fr *Frame, s *SiteSpec, pos token.Pos, pc Term, st State, vars map[string]SVal) {
	s.Hits++
	se := ex.newSpecEnv(fr, pc, st, ex.rootEntry())
	for k, v := range vars {
		se.vars[k] = v
	}
	goal, err := se.evalBool(s.C.E)
	o := &Obligation{ID: fmt.Sprintf("%s#site.%s@%d", ex.fnID, s.C.Label, s.Hits), Func: ex.fnID, Kind: "site", Props: s.C.Props, Where: posOf(fr.fn, pos)}
	if err != nil {
		o.Detail = "spec error: " + err.Error()
		goal = tFalse
	}
	ex.vc.oblige(o, pc, ex.vc.def("site", goal))
}

func (ex *Exec) rootEntry() State {
	return ex.rootFrame.entry
}

func (ex *Exec) siteCall(fr *Frame, instr ssa.CallInstruction, c *ssa.CallCommon, pc Term, st State) {
	specs := ex.siteSpecs("call")
	if len(specs) == 0 {
		return
	}
	names := calleeNames(c)
	for _, s := range specs {
		target, ord := s.Target, 0
		if i := strings.LastIndex(target, "#"); i > 0 {
			fmt.Sscanf(target[i+1:], "%d", &ord)
			target = target[:i]
		}
		if !contains(names, target) {
			continue
		}
		if ord > 0 {
			// only the ord-th call site of this callee in source order within the function under contract
			if fr != ex.rootFrame {
				continue
			}
			rank := 1
			for _, b := range fr.fn.Blocks {
				for _, other := range b.Instrs {
					oc, ok := other.(ssa.CallInstruction)
					if !ok || other == instr.(ssa.Instruction) {
						continue
					}
					if contains(calleeNames(oc.Common()), target) && other.Pos() < instr.Pos() {
						rank++
					}
				}
			}
			if rank != ord {
				continue
			}
		}
		vars := map[string]SVal{}
		if c.IsInvoke() {
			vars["recv"] = SVal{T: ex.val(fr, c.Value), Ty: c.Value.Type()}
		}
		for i, a := range c.Args {
			v := SVal{T: ex.val(fr, a), Ty: a.Type()}
			vars[fmt.Sprintf("arg%d", i)] = v
			if i == 0 && !c.IsInvoke() && c.Signature().Recv() != nil {
				vars["recv"] = v
			}
		}
		ex.siteOblige(fr, s, instr.Pos(), pc, st, vars)
	}
}

func (ex *Exec) siteStore(fr *Frame, in *ssa.Store, pc Term, st State, a *Addr, v Term) {
	specs := ex.siteSpecs("store")
	if len(specs) == 0 {
		return
	}
	fa, ok := in.Addr.(*ssa.FieldAddr)
	if !ok {
		return
	}
	stT := fa.X.Type().Underlying().(*types.Pointer).Elem()
	fname := stT.Underlying().(*types.Struct).Field(fa.Field).Name()
	names := []string{typeShort(stT) + "." + fname}
	if n, ok := types.Unalias(stT).(*types.Named); ok {
		names = append(names, n.Obj().Name()+"."+fname)
	}
	for _, s := range specs {
		if !contains(names, s.Target) {
			continue
		}
		vars := map[string]SVal{"value": {T: v, Ty: in.Val.Type()}}
		if xa := ex.addrOf(fr, fa.X); xa.Local == nil {
			vars["target"] = SVal{T: xa.Ref, Ty: fa.X.Type()}
		}
		ex.siteOblige(fr, s, in.Pos(), pc, st, vars)
	}
}

// chanNames describes a channel operand: "Type.field" when it is loaded from
// a struct field, plus "elem:<type>".
func chanNames(ch ssa.Value) []string {
	var out []string
	if ct, ok := ch.Type().Underlying().(*types.Chan); ok {
		out = append(out, "elem:"+typeShort(ct.Elem()))
	}
	if u, ok := ch.(*ssa.UnOp); ok && u.Op == token.MUL {
		if fa, ok := u.X.(*ssa.FieldAddr); ok {
			stT := fa.X.Type().Underlying().(*types.Pointer).Elem()
			fname := stT.Underlying().(*types.Struct).Field(fa.Field).Name()
			out = append(out, typeShort(stT)+"."+fname)
			if n, ok := types.Unalias(stT).(*types.Named); ok {
				out = append(out, n.Obj().Name()+"."+fname)
			}
		}
		if al, ok := u.X.(*ssa.Alloc); ok && al.Comment != "" {
			out = append(out, "local:"+al.Comment)
		}
	}
	return out
}

func (ex *Exec) siteSend(fr *Frame, ch, x ssa.Value, pos token.Pos, pc Term, st State) {
	specs := ex.siteSpecs("send")
	if len(specs) == 0 {
		return
	}
	names := chanNames(ch)
	for _, s := range specs {
		if !contains(names, s.Target) {
			continue
		}
		vars := map[string]SVal{"value": {T: ex.val(fr, x), Ty: x.Type()}, "ch": {T: ex.val(fr, ch), Ty: ch.Type()}}
		ex.siteOblige(fr, s, pos, pc, st, vars)
	}
}

func (ex *Exec) siteMake(fr *Frame, in *ssa.MakeSlice, pc Term, st State, n, c Term) {
	specs := ex.siteSpecs("make")
	if len(specs) == 0 {
		return
	}
	el := in.Type().Underlying().(*types.Slice).Elem()
	names := []string{"*", typeShort(el)}
	for _, s := range specs {
		if !contains(names, s.Target) {
			continue
		}
		ex.siteOblige(fr, s, in.Pos(), pc, st, map[string]SVal{"size": {T: n}, "capacity": {T: c}})
	}
}

func (ex *Exec) recvAssume(fr *Frame, in *ssa.UnOp, pc Term, st State, v Term) {
	ex.recvAssumeValue(fr, in.X, pc, st, v)
}

// recvAssumeValue: a value received from a channel with a declared payload invariant
// (`chan Type.field label: expr over value`) satisfies it; the invariant is an assumption
// here and an obligation at the send sites that carry a matching `site send` clause.
func (ex *Exec) recvAssumeValue(fr *Frame, chv ssa.Value, pc Term, st State, v Term) {
	names := chanNames(chv)
	for _, cs := range ex.g.cs.Chans {
		if !contains(names, cs.Target) {
			continue
		}
		se := ex.newSpecEnv(fr, pc, st, ex.rootEntry())
		val := v
		if v.Tuple != nil {
			val = v.Tuple[0]
		}
		ct := chv.Type().Underlying().(*types.Chan)
		se.vars["value"] = SVal{T: val, Ty: ct.Elem()}
		fact, err := se.evalBool(cs.C.E)
		if err == nil {
			ex.vc.assume(pc, fact, "channel payload invariant "+cs.Target)
			ex.assumed["channel payload invariant "+cs.Target+"#"+cs.C.Label+" holds for received values (asserted at send sites under contract)"] = true
		}
	}
}

// assumeAfter: explicit assumptions about the effect of a library call,
// written in the contract as `assume after <callee> label: expr because ...`.
func (ex *Exec) assumeAfter(fr *Frame, in *ssa.Call, pc Term, st State) {
	specs := ex.siteSpecs("assume-after")
	if len(specs) == 0 {
		return
	}
	names := calleeNames(in.Common())
	for _, s := range specs {
		if !contains(names, s.Target) {
			continue
		}
		s.Hits++
		se := ex.newSpecEnv(fr, pc, st, ex.rootEntry())
		if t, ok := fr.vals[in]; ok {
			if t.Tuple != nil {
				for i, x := range t.Tuple {
					se.vars[fmt.Sprintf("ret%d", i)] = SVal{T: x, Ty: in.Type().(*types.Tuple).At(i).Type()}
				}
			} else {
				se.vars["ret"] = SVal{T: t, Ty: in.Type()}
				se.vars["ret0"] = se.vars["ret"]
			}
		}
		for i, a := range in.Common().Args {
			se.vars[fmt.Sprintf("arg%d", i)] = SVal{T: ex.val(fr, a), Ty: a.Type()}
		}
		fact, err := se.evalBool(s.C.E)
		if err != nil {
			ex.vc.note(fmt.Sprintf("assume %s not usable: %v", s.C.Label, err))
			continue
		}
		ex.vc.assume(pc, ex.vc.def("assumed", fact), "assumed after "+s.Target+": "+s.C.Label)
		ex.assumed[fmt.Sprintf("%s: after %s, %s (%s)", ex.fnID, s.Target, s.C.Src, s.Why)] = true
	}
}

// ghostAfter applies `ghostset after <callee> name Sort: expr` updates.
func (ex *Exec) ghostAfter(fr *Frame, in *ssa.Call, pc Term, st State) State {
	specs := ex.siteSpecs("ghost-after")
	if len(specs) == 0 {
		return st
	}
	names := calleeNames(in.Common())
	for _, s := range specs {
		if !contains(names, s.Target) {
			continue
		}
		s.Hits++
		se := ex.newSpecEnv(fr, pc, st, ex.rootEntry())
		if t, ok := fr.vals[in]; ok {
			if t.Tuple != nil {
				for i, x := range t.Tuple {
					se.vars[fmt.Sprintf("ret%d", i)] = SVal{T: x, Ty: in.Type().(*types.Tuple).At(i).Type()}
				}
			} else {
				se.vars["ret"] = SVal{T: t, Ty: in.Type()}
				se.vars["ret0"] = se.vars["ret"]
			}
		}
		for i, a := range in.Common().Args {
			se.vars[fmt.Sprintf("arg%d", i)] = SVal{T: ex.val(fr, a), Ty: a.Type()}
		}
		v := se.value(se.eval(s.C.E))
		if se.err != nil || v.Sort != Sort(s.Why) {
			ex.vc.note(fmt.Sprintf("ghostset %s not applied: %v (sort %s)", s.C.Label, se.err, v.Sort))
			ex.outsideSubset("ghost update " + s.C.Label + " cannot be evaluated")
			continue
		}
		st = st.with("G|"+s.C.Label, ex.vc.def("ghost_"+s.C.Label, v))
	}
	return st
}

// ghostAtSelect applies `ghostset after select name Sort: expr` updates: the ghost is set when
// a select statement has been executed; `index` is the number of the case that was taken
// (-1: the default case).
func (ex *Exec) ghostAtSelect(fr *Frame, pc Term, st State, idx Term) State {
	for _, s := range ex.siteSpecs("ghost-after") {
		if s.Target != "select" {
			continue
		}
		s.Hits++
		se := ex.newSpecEnv(fr, pc, st, ex.rootEntry())
		se.vars["index"] = SVal{T: idx, Ty: types.Typ[types.Int]}
		v := se.value(se.eval(s.C.E))
		if se.err != nil || v.Sort != Sort(s.Why) {
			ex.vc.note(fmt.Sprintf("ghostset %s not applied: %v (sort %s)", s.C.Label, se.err, v.Sort))
			ex.outsideSubset("ghost update " + s.C.Label + " cannot be evaluated")
			continue
		}
		st = st.with("G|"+s.C.Label, ex.vc.def("ghost_"+s.C.Label, v))
	}
	return st
}

// ghostInit gives every declared ghost variable its initial value.
func (ex *Exec) ghostInit(st State) State {
	for _, s := range ex.siteSpecs("ghost-after") {
		k := "G|" + s.C.Label
		so := Sort(s.Why)
		ex.keySort[k] = so
		if ex.fc != nil && mentions(ex.fc.Requires, s.C.Label) {
			// the function's precondition talks about the ghost: it enters with an arbitrary value
			if _, done := st.m[k]; !done {
				st = st.with(k, ex.vc.fresh("ghost0_"+s.C.Label, so))
			}
			continue
		}
		st = st.with(k, zeroOfSort(so))
	}
	return st
}

func (ex *Exec) useUFun(u *UFun) {
	if ex.ufunUsed[u.Name] {
		return
	}
	ex.ufunUsed[u.Name] = true
	var as []string
	for _, a := range u.Args {
		as = append(as, string(a))
	}
	ex.ufunDecl = append(ex.ufunDecl, fmt.Sprintf("(declare-fun %s (%s) %s)", u.Name, strings.Join(as, " "), u.Res))
}

// mentions: some clause refers to the identifier.
func mentions(cs []*Clause, name string) bool {
	re := regexp.MustCompile(`(^|[^A-Za-z0-9_.])` + regexp.QuoteMeta(name) + `($|[^A-Za-z0-9_])`)
	for _, c := range cs {
		if re.MatchString(c.Src) {
			return true
		}
	}
	return false
}
