package main

import (
	"fmt"
	"go/constant"
	"go/token"
	"go/types"
	"os"
	"sort"
	"strings"

	"golang.org/x/tools/go/ssa"
)

// State maps heap/local keys to their current SMT term. Treated as immutable:
// every update copies.
type State struct {
	m map[string]Term
}

func (s State) with(k string, v Term) State {
	n := make(map[string]Term, len(s.m)+1)
	for a, b := range s.m {
		n[a] = b
	}
	n[k] = v
	return State{n}
}

// Closure is a statically known function value.
type Closure struct {
	Fn       *ssa.Function
	Bindings []Term
	BindAddr []*Addr
}

// Addr is the Go-side description of an address-valued SSA value.
type Addr struct {
	Ref     Term       // Ref term for the address
	Elem    types.Type // pointee type
	IsField bool       // direct scalar field of a struct object in field mode
	Parent  Term       // struct object ref (IsField)
	SKey    string     // struct type key
	Field   int        // field index
	Local   *LocalVar  // rooted at a non-escaping local
	Path    []pathStep // path inside the local
}

type pathStep struct {
	field int
	si    *StructInfo
	index Term // for arrays
	isIdx bool
	elSo  Sort
}

type LocalVar struct {
	Key  string
	T    types.Type
	Name string
}

type deferRec struct {
	guard Term
	call  *ssa.CallCommon
	instr *ssa.Defer
}

type Frame struct {
	fn      *ssa.Function
	inst    int
	vals    map[ssa.Value]Term
	addrs   map[ssa.Value]*Addr
	locals  map[*ssa.Alloc]*LocalVar
	escapes map[*ssa.Alloc]bool
	defers  []deferRec
	parent  *Frame
	depth   int
	// entry snapshot for old()
	entry   State
	params  map[string]Term // entry values of parameters by name
	allocBy map[string][]*ssa.Alloc
	callN   map[string]int
}

type Exec struct {
	initGlobals      map[*ssa.Global]Term
	g                *Global
	vc               *VC
	te               *TypeEnv
	initKey          map[string]Term
	keySort          map[string]Sort
	nLoc             int
	nInst            int
	root             *ssa.Function
	fc               *FuncContract
	fnID             string
	safety           map[string]bool
	props            []string
	nSafety          map[string]int
	outside          []string // unsupported constructs encountered
	assumed          map[string]bool
	inlined          map[string]bool
	calls            map[string]bool // contracts used at call sites
	rootFrame        *Frame
	ufunUsed         map[string]bool
	ufunDecl         []string
	lemmasUsed       map[string]bool
	nReturns         int
	callbackModelled bool
	dynSort          map[string]Sort
	nLazy            int
	lazyHavoc        map[string]Term
	recActive        map[*Pred]bool
	recInst          map[string]*recInstance
	readLog          map[string]Term
	curClo           *Closure // closure value of the call being specified (callContract)
}

func (ex *Exec) unsupported(what string) {
	ex.vc.note("abstracted: " + what)
}

// outsideSubset marks the function as not verifiable by this engine: none of
// its obligations may be reported as proved.
func (ex *Exec) outsideSubset(why string) {
	if ex.outside == nil || !contains(ex.outside, why) {
		ex.outside = append(ex.outside, why)
	}
}

// ---------- state keys ----------

func fieldKey(skey string, i int) string { return fmt.Sprintf("F|%s|%d", skey, i) }
func cellKey(t types.Type) string        { return "C|" + typeKey(t.Underlying()) }

func (ex *Exec) keyInit(k string, so Sort) Term {
	if t, ok := ex.initKey[k]; ok {
		return t
	}
	t := ex.vc.fresh("H0_"+shortKey(k), so)
	ex.initKey[k] = t
	ex.keySort[k] = so
	ex.heapAllocatedBefore(t, 0)
	return t
}

// heapAllocatedBefore: a heap array that comes from outside the instructions executed so
// far (the entry heap, the result of a havoc, a loop-head cut) cannot hold the address of an
// object this execution allocates later. n is the number of allocations made so far.
func (ex *Exec) heapAllocatedBefore(arr Term, n int) {
	var inner string
	switch arr.Sort {
	case arraySort(SRef, SRef):
		inner = fmt.Sprintf("(select %s r)", arr.S)
	case arraySort(SRef, SSlice):
		inner = fmt.Sprintf("(sbase (select %s r))", arr.S)
	default:
		// map value arrays (Array Ref (Array K Ref)): the values of a map that comes from
		// outside are not addresses allocated later either
		so := string(arr.Sort)
		const pre, suf = "(Array Ref (Array ", " Ref))"
		if strings.HasPrefix(so, pre) && strings.HasSuffix(so, suf) {
			ks := so[len(pre) : len(so)-len(suf)]
			if !strings.ContainsAny(ks, "() ") {
				inner = fmt.Sprintf("(select (select %s r) k)", arr.S)
				ex.vc.assume(tTrue, T(fmt.Sprintf("(forall ((r Ref) (k %s)) (! (=> ((_ is loc) (root %s)) (<= (locid (root %s)) %d)) :pattern (%s)))", ks, inner, inner, n, inner), SBool), "a map from outside holds no address allocated later")
			}
		}
		return
	}
	ex.vc.assume(tTrue, T(fmt.Sprintf("(forall ((r Ref)) (! (=> ((_ is loc) (root %s)) (<= (locid (root %s)) %d)) :pattern ((select %s r))))", inner, inner, n, arr.S), SBool), "a heap from outside holds no address allocated later")
}

func shortKey(k string) string {
	if i := strings.LastIndex(k, "/"); i >= 0 {
		k = k[:2] + k[i+1:]
	}
	if len(k) > 40 {
		k = k[:40]
	}
	return k
}

func (ex *Exec) get(st State, k string, so Sort) Term {
	t, ok := st.m[k]
	if !ok {
		t = ex.keyInit(k, so)
	} else if strings.HasPrefix(t.S, "?hv") {
		// havoc'd before its sort was known: materialise once per havoc token
		if ex.lazyHavoc == nil {
			ex.lazyHavoc = map[string]Term{}
		}
		f, seen := ex.lazyHavoc[t.S]
		if !seen {
			f = ex.vc.fresh("hv_"+shortKey(k), so)
			ex.heapAllocatedBefore(f, ex.nLoc)
			ex.lazyHavoc[t.S] = f
			if _, known := ex.keySort[k]; !known {
				ex.keySort[k] = so
			}
		}
		t = f
	}
	if ex.readLog != nil {
		ex.readLog[k] = t
	}
	return t
}

// fieldArr returns the key and element sort used for direct access to field i
// of struct type st (scalar fields only).
func (ex *Exec) fieldArrKey(skey string, i int, ft types.Type) (string, Sort) {
	return fieldKey(skey, i), arraySort(SRef, ex.te.sortOf(ft))
}

// ---------- loads and stores ----------

func (ex *Exec) loadRef(st State, pc Term, ref Term, t types.Type) Term {
	return ex.load(st, pc, &Addr{Ref: ref, Elem: t}, t)
}

func (ex *Exec) load(st State, pc Term, a *Addr, t types.Type) Term {
	if a.Local != nil {
		v := ex.get(st, a.Local.Key, ex.te.sortOf(a.Local.T))
		return ex.projectPath(v, a.Path)
	}
	if isStruct(t) {
		si := ex.te.structInfo(t)
		stt := t.Underlying().(*types.Struct)
		fs := make([]Term, stt.NumFields())
		for i := range fs {
			fs[i] = ex.load(st, pc, ex.fieldAddr(a.Ref, t, i), stt.Field(i).Type())
		}
		return ex.te.mkStruct(si, fs)
	}
	if arr, ok := isArray(t); ok {
		so := ex.te.sortOf(t)
		if arr.Len() <= 64 {
			v := T(fmt.Sprintf("((as const %s) %s)", so, ex.te.zero(arr.Elem()).S), so)
			for i := int64(0); i < arr.Len(); i++ {
				e := ex.load(st, pc, &Addr{Ref: refElem(a.Ref, intLit(i)), Elem: arr.Elem()}, arr.Elem())
				v = sto(v, intLit(i), e)
			}
			return ex.vc.def("arr", v)
		}
		v := ex.vc.fresh("arr", so)
		if !isStruct(arr.Elem()) {
			k := cellKey(arr.Elem())
			h := ex.get(st, k, arraySort(SRef, ex.te.sortOf(arr.Elem())))
			ex.vc.assume(pc, T(fmt.Sprintf("(forall ((i Int)) (! (=> (and (<= 0 i) (< i %d)) (= (select %s i) (select %s (elem %s i)))) :pattern ((select %s i))))", arr.Len(), v.S, h.S, a.Ref.S, v.S), SBool), "array load")
		}
		return v
	}
	so := ex.te.sortOf(t)
	var v Term
	if a.IsField {
		h := ex.get(st, fieldKey(a.SKey, a.Field), arraySort(SRef, so))
		v = sel(h, a.Parent, so)
	} else {
		h := ex.get(st, cellKey(t), arraySort(SRef, so))
		v = sel(h, a.Ref, so)
	}
	return v
}

func (ex *Exec) projectPath(v Term, path []pathStep) Term {
	for _, p := range path {
		if p.isIdx {
			v = sel(v, p.index, p.elSo)
		} else {
			v = ex.te.fieldGet(p.si, v, p.field)
		}
	}
	return v
}

func (ex *Exec) updatePath(v Term, path []pathStep, nv Term) Term {
	if len(path) == 0 {
		return nv
	}
	p := path[0]
	if p.isIdx {
		inner := sel(v, p.index, p.elSo)
		return sto(v, p.index, ex.updatePath(inner, path[1:], nv))
	}
	inner := ex.te.fieldGet(p.si, v, p.field)
	return ex.te.fieldSet(p.si, v, p.field, ex.updatePath(inner, path[1:], nv))
}

func (ex *Exec) store(st State, pc Term, a *Addr, t types.Type, v Term) State {
	if a.Local != nil {
		cur := ex.get(st, a.Local.Key, ex.te.sortOf(a.Local.T))
		nv := ex.vc.def("L", ex.updatePath(cur, a.Path, v))
		if len(a.Path) == 0 {
			nv.Clo = v.Clo
			nv.LAddr = v.LAddr
			nv.Lost = v.Lost
		} else if v.LAddr != nil || v.Lost {
			ex.outsideSubset("a pointer to a local variable is stored inside a local aggregate")
		}
		return st.with(a.Local.Key, nv)
	}
	if isStruct(t) {
		si := ex.te.structInfo(t)
		stt := t.Underlying().(*types.Struct)
		for i := 0; i < stt.NumFields(); i++ {
			st = ex.store(st, pc, ex.fieldAddr(a.Ref, t, i), stt.Field(i).Type(), ex.te.fieldGet(si, v, i))
		}
		return st
	}
	if arr, ok := isArray(t); ok {
		if arr.Len() <= 64 {
			for i := int64(0); i < arr.Len(); i++ {
				st = ex.store(st, pc, &Addr{Ref: refElem(a.Ref, intLit(i)), Elem: arr.Elem()}, arr.Elem(), sel(v, intLit(i), ex.te.sortOf(arr.Elem())))
			}
			return st
		}
		if !isStruct(arr.Elem()) {
			k := cellKey(arr.Elem())
			so := arraySort(SRef, ex.te.sortOf(arr.Elem()))
			h := ex.get(st, k, so)
			nh := ex.vc.fresh("H_"+shortKey(k), so)
			ex.vc.assume(pc, T(fmt.Sprintf("(forall ((r Ref)) (! (= (select %s r) (ite (and ((_ is elem) r) (= (ebase r) %s) (<= 0 (eidx r)) (< (eidx r) %d)) (select %s (eidx r)) (select %s r))) :pattern ((select %s r))))", nh.S, a.Ref.S, arr.Len(), v.S, h.S, nh.S), SBool), "array store")
			return st.with(k, nh)
		}
		ex.unsupported("store of large struct array")
		return st
	}
	so := ex.te.sortOf(t)
	if v.LAddr != nil || v.Lost {
		ex.outsideSubset("a pointer to a local variable is stored in the heap")
	}
	if v.Sort != so {
		// defensive: sorts must agree
		v = ex.coerce(v, so)
	}
	if a.IsField {
		k := fieldKey(a.SKey, a.Field)
		h := ex.get(st, k, arraySort(SRef, so))
		return st.with(k, ex.vc.def("H_"+shortKey(k), sto(h, a.Parent, v)))
	}
	k := cellKey(t)
	h := ex.get(st, k, arraySort(SRef, so))
	return st.with(k, ex.vc.def("H_"+shortKey(k), sto(h, a.Ref, v)))
}

func (ex *Exec) coerce(v Term, so Sort) Term {
	if v.Sort == so {
		return v
	}
	ex.unsupported(fmt.Sprintf("sort coercion %s -> %s", v.Sort, so))
	return ex.vc.fresh("coerce", so)
}

// fieldAddr builds the address of field i of the struct of type t at ref.
func (ex *Exec) fieldAddr(ref Term, t types.Type, i int) *Addr {
	stt := t.Underlying().(*types.Struct)
	ft := stt.Field(i).Type()
	skey := typeKey(t)
	fid := ex.te.fid(skey, i)
	a := &Addr{Ref: refFld(ref, fid), Elem: ft}
	if !isStruct(ft) {
		if _, isArr := isArray(ft); !isArr && !ex.g.cellMode[fmt.Sprintf("%s#%d", skey, i)] {
			a.IsField = true
			a.Parent = ref
			a.SKey = skey
			a.Field = i
		}
	}
	return a
}

// ---------- frames / instantiation ----------

func (ex *Exec) newFrame(fn *ssa.Function, parent *Frame) *Frame {
	ex.nInst++
	fr := &Frame{fn: fn, inst: ex.nInst, vals: map[ssa.Value]Term{}, addrs: map[ssa.Value]*Addr{}, locals: map[*ssa.Alloc]*LocalVar{}, parent: parent, params: map[string]Term{}, allocBy: map[string][]*ssa.Alloc{}, callN: map[string]int{}}
	if parent != nil {
		fr.depth = parent.depth + 1
	}
	fr.escapes = escapingAllocs(fn)
	if os.Getenv("RAINVC_DEBUG") != "" {
		for al := range fr.escapes {
			fmt.Fprintf(os.Stderr, "escaping in %s: %s (%s)\n", fn.Name(), al.Name(), al.Comment)
		}
	}
	for _, b := range fn.Blocks {
		for _, in := range b.Instrs {
			if al, ok := in.(*ssa.Alloc); ok && al.Comment != "" {
				fr.allocBy[al.Comment] = append(fr.allocBy[al.Comment], al)
			}
		}
	}
	return fr
}

var escCache = map[*ssa.Function]map[*ssa.Alloc]bool{}
var spillCache = map[*ssa.Function]map[*ssa.Alloc]map[ssa.Value]bool{}

// spilledAllocs: tracked locals whose address is stored in another local cell.
func spilledAllocs(fn *ssa.Function) map[*ssa.Alloc]map[ssa.Value]bool {
	escapingAllocs(fn)
	return spillCache[fn]
}

var theGlobal *Global

// trackableCallee: a callee that doCall will execute inline (when the depth
// budget allows), so that a pointer to a local passed to it stays symbolic.
func trackableCallee(callee *ssa.Function) bool {
	if callee.Blocks == nil || callee.Parent() != nil || !isRainFn(callee) || hasLoops(callee) || instrCount(callee) > 60 {
		return false
	}
	if theGlobal != nil && theGlobal.cs != nil {
		if fc := theGlobal.cs.Funcs[fnID(callee)]; fc != nil && !fc.Inline {
			return false
		}
	}
	return true
}

// inlinableLiteral: a function literal that doCall executes inline whenever the
// depth budget allows (shouldInline); a call that is not inlined havocs the
// captured locals (havocPointedLocals).
func inlinableLiteral(cfn *ssa.Function) bool {
	if cfn.Blocks == nil || cfn.Parent() == nil || hasLoops(cfn) || cfn.Recover != nil {
		return false
	}
	if theGlobal != nil && theGlobal.cs != nil {
		if fc := theGlobal.cs.Funcs[fnID(cfn)]; fc != nil {
			return false
		}
	}
	return true
}

// onlyCalled: the closure value is used only as the callee of plain calls,
// directly or after being kept in a local variable that is assigned once.
func onlyCalled(mc *ssa.MakeClosure) bool {
	calleeOnly := func(v ssa.Value) bool {
		refs := v.Referrers()
		if refs == nil {
			return false
		}
		for _, r := range *refs {
			switch r := r.(type) {
			case *ssa.Call:
				if r.Call.Value != v {
					return false
				}
				for _, a := range r.Call.Args {
					if a == v {
						return false
					}
				}
			case *ssa.DebugRef:
			case *ssa.Store:
				if r.Val != v {
					return false
				}
			default:
				return false
			}
		}
		return true
	}
	if !calleeOnly(mc) {
		return false
	}
	for _, r := range *mc.Referrers() {
		st, ok := r.(*ssa.Store)
		if !ok {
			continue
		}
		dst, ok := st.Addr.(*ssa.Alloc)
		if !ok || dst.Heap || dst.Referrers() == nil {
			return false
		}
		stores := 0
		for _, dr := range *dst.Referrers() {
			switch dr := dr.(type) {
			case *ssa.Store:
				if dr.Addr != dst {
					return false
				}
				stores++
			case *ssa.UnOp:
				if dr.Op != token.MUL || !calleeOnly(dr) {
					return false
				}
				for _, lr := range *dr.Referrers() {
					if _, isStore := lr.(*ssa.Store); isStore {
						return false
					}
				}
			case *ssa.DebugRef:
			default:
				return false
			}
		}
		if stores != 1 {
			return false
		}
	}
	return true
}

// writtenThrough: some store may go through the pointer v (or a pointer derived
// from it), following inline callees and function literals.
func writtenThrough(v ssa.Value, seen map[ssa.Value]bool) bool {
	if seen[v] {
		return false
	}
	seen[v] = true
	refs := v.Referrers()
	if refs == nil {
		return true
	}
	for _, r := range *refs {
		switch r := r.(type) {
		case *ssa.Store:
			if r.Addr == v || r.Val == v {
				return true
			}
		case *ssa.FieldAddr:
			if writtenThrough(r, seen) {
				return true
			}
		case *ssa.IndexAddr:
			if writtenThrough(r, seen) {
				return true
			}
		case *ssa.UnOp, *ssa.DebugRef:
		case *ssa.MakeClosure:
			cfn, ok := r.Fn.(*ssa.Function)
			if !ok {
				return true
			}
			for i, b := range r.Bindings {
				if b == v && (i >= len(cfn.FreeVars) || writtenThrough(cfn.FreeVars[i], seen)) {
					return true
				}
			}
		case ssa.CallInstruction:
			c := r.Common()
			callee := c.StaticCallee()
			if callee == nil || callee.Blocks == nil {
				return true
			}
			for i, a := range c.Args {
				if a == v && (i >= len(callee.Params) || writtenThrough(callee.Params[i], seen)) {
					return true
				}
			}
		default:
			return true
		}
	}
	return false
}

// escapingAllocs: allocs whose address is used other than as the address
// operand of a load/store reached through FieldAddr/IndexAddr chains.
func escapingAllocs(fn *ssa.Function) map[*ssa.Alloc]bool {
	if m, ok := escCache[fn]; ok {
		return m
	}
	m := map[*ssa.Alloc]bool{}
	sp := map[*ssa.Alloc]map[ssa.Value]bool{}
	spillCache[fn] = sp
	var aliases map[ssa.Value]bool // loads that yield a copy of the current alloc's address
	var addrOnly func(v ssa.Value, seen map[ssa.Value]bool) bool
	addrOnly = func(v ssa.Value, seen map[ssa.Value]bool) bool {
		if seen[v] {
			return true
		}
		seen[v] = true
		refs := v.Referrers()
		if refs == nil {
			return false
		}
		for _, r := range *refs {
			switch r := r.(type) {
			case *ssa.UnOp:
				if r.Op != token.MUL {
					return false
				}
			case *ssa.Store:
				if r.Val == v {
					// the pointer is spilled into a plain local cell (parameter spill of an
					// inlined callee, or `p := &x`): follow every load of that cell
					dst, ok := r.Addr.(*ssa.Alloc)
					if !ok || dst.Referrers() == nil {
						return false
					}
					for _, dr := range *dst.Referrers() {
						switch dr := dr.(type) {
						case *ssa.Store:
							if dr.Addr != dst {
								return false
							}
						case *ssa.UnOp:
							aliases[dr] = true
							if dr.Op != token.MUL || !addrOnly(dr, seen) {
								return false
							}
						case *ssa.DebugRef:
						default:
							return false
						}
					}
				}
			case ssa.CallInstruction:
				if _, isGo := r.(*ssa.Go); isGo {
					return false
				}
				if _, isDefer := r.(*ssa.Defer); isDefer {
					return false
				}
				c := r.Common()
				callee := c.StaticCallee()
				if callee == nil || c.Value == v || !trackableCallee(callee) {
					return false
				}
				for i, a := range c.Args {
					if a == v && (i >= len(callee.Params) || !addrOnly(callee.Params[i], seen)) {
						return false
					}
				}
			case *ssa.MakeClosure:
				// captured by a function literal that is only ever called (inline) from this
				// function: the cell stays a tracked local, reached through the free variable
				cfn, ok := r.Fn.(*ssa.Function)
				if !ok || !inlinableLiteral(cfn) || !onlyCalled(r) {
					return false
				}
				for i, b := range r.Bindings {
					if b == v && (i >= len(cfn.FreeVars) || !addrOnly(cfn.FreeVars[i], seen)) {
						return false
					}
				}
			case *ssa.FieldAddr:
				if !addrOnly(r, seen) {
					return false
				}
			case *ssa.IndexAddr:
				if r.X != v {
					return false
				}
				// index into local array
				if !addrOnly(r, seen) {
					return false
				}
			case *ssa.DebugRef:
			default:
				return false
			}
		}
		return true
	}
	for _, b := range fn.Blocks {
		for _, in := range b.Instrs {
			if al, ok := in.(*ssa.Alloc); ok {
				aliases = map[ssa.Value]bool{}
				if !addrOnly(al, map[ssa.Value]bool{}) {
					m[al] = true
				} else if len(aliases) > 0 {
					sp[al] = aliases
				}
			}
		}
	}
	escCache[fn] = m
	return m
}

// ---------- values ----------

func (ex *Exec) val(fr *Frame, v ssa.Value) Term {
	if t, ok := fr.vals[v]; ok {
		return t
	}
	switch v := v.(type) {
	case *ssa.Const:
		return ex.constTerm(v)
	case *ssa.Function:
		t := ex.te.fnLit(v.String())
		t.Clo = &Closure{Fn: v}
		return t
	case *ssa.Global:
		return T(fmt.Sprintf("(obj %d)", ex.g.globalID(v)), SRef)
	case *ssa.Builtin:
		return ex.te.fnLit("builtin." + v.Name())
	case *ssa.FreeVar:
		// resolved at frame creation
	}
	ex.unsupported(fmt.Sprintf("unresolved value %T %s in %s", v, v.Name(), fr.fn.Name()))
	t := ex.vc.fresh("unk", ex.te.sortOf(v.Type()))
	fr.vals[v] = t
	return t
}

func (ex *Exec) constTerm(c *ssa.Const) Term {
	t := c.Type()
	so := ex.te.sortOf(t)
	if c.Value == nil {
		return ex.te.zero(t)
	}
	switch c.Value.Kind() {
	case constant.Bool:
		if constant.BoolVal(c.Value) {
			return tTrue
		}
		return tFalse
	case constant.Int:
		if so == SReal {
			return T(c.Value.ExactString()+".0", SReal)
		}
		s := c.Value.ExactString()
		if strings.HasPrefix(s, "-") {
			return T("(- "+s[1:]+")", SInt)
		}
		return T(s, SInt)
	case constant.String:
		return ex.te.strLit(constant.StringVal(c.Value))
	case constant.Float:
		f, _ := constant.Float64Val(c.Value)
		if so == SInt {
			return intLit(int64(f))
		}
		return T(fmt.Sprintf("%f", f), SReal)
	}
	return ex.vc.fresh("const", so)
}

func (ex *Exec) addrOf(fr *Frame, v ssa.Value) *Addr {
	if a, ok := fr.addrs[v]; ok {
		return a
	}
	pt, ok := v.Type().Underlying().(*types.Pointer)
	var el types.Type
	if ok {
		el = pt.Elem()
	}
	t := ex.val(fr, v)
	if t.LAddr != nil {
		return t.LAddr
	}
	if t.Lost {
		ex.outsideSubset("a pointer to a local variable is merged from different locals (" + fr.fn.Name() + ")")
	}
	return &Addr{Ref: t, Elem: el}
}

// ---------- CFG helpers ----------

type loopInfo struct {
	header  *ssa.BasicBlock
	ordinal int
	body    map[*ssa.BasicBlock]bool
	backs   []*ssa.BasicBlock
}

type cfgInfo struct {
	order  []*ssa.BasicBlock
	loops  map[*ssa.BasicBlock]*loopInfo
	isBack map[[2]int]bool
	reach  map[*ssa.BasicBlock]bool
}

var cfgCache = map[*ssa.Function]*cfgInfo{}

func analyzeCFG(fn *ssa.Function) *cfgInfo {
	if c, ok := cfgCache[fn]; ok {
		return c
	}
	ci := &cfgInfo{loops: map[*ssa.BasicBlock]*loopInfo{}, isBack: map[[2]int]bool{}}
	for _, b := range fn.Blocks {
		for _, s := range b.Succs {
			if s.Dominates(b) {
				ci.isBack[[2]int{b.Index, s.Index}] = true
				li := ci.loops[s]
				if li == nil {
					li = &loopInfo{header: s, body: map[*ssa.BasicBlock]bool{s: true}}
					ci.loops[s] = li
				}
				li.backs = append(li.backs, b)
			}
		}
	}
	// natural loop bodies
	for h, li := range ci.loops {
		var stack []*ssa.BasicBlock
		for _, b := range li.backs {
			if !li.body[b] {
				li.body[b] = true
				stack = append(stack, b)
			}
		}
		for len(stack) > 0 {
			b := stack[len(stack)-1]
			stack = stack[:len(stack)-1]
			for _, p := range b.Preds {
				if !li.body[p] && p != h {
					li.body[p] = true
					stack = append(stack, p)
				}
			}
		}
	}
	var hs []*ssa.BasicBlock
	for h := range ci.loops {
		hs = append(hs, h)
	}
	// ordinal by source position of the loop (falls back to block index)
	sort.Slice(hs, func(i, j int) bool { return hs[i].Index < hs[j].Index })
	for i, h := range hs {
		ci.loops[h].ordinal = i + 1
	}
	// reverse postorder over forward edges
	seen := map[*ssa.BasicBlock]bool{}
	var post []*ssa.BasicBlock
	var dfs func(b *ssa.BasicBlock)
	dfs = func(b *ssa.BasicBlock) {
		seen[b] = true
		for _, s := range b.Succs {
			if ci.isBack[[2]int{b.Index, s.Index}] || seen[s] {
				continue
			}
			dfs(s)
		}
		post = append(post, b)
	}
	if len(fn.Blocks) > 0 {
		dfs(fn.Blocks[0])
	}
	ci.reach = map[*ssa.BasicBlock]bool{}
	for i := len(post) - 1; i >= 0; i-- {
		ci.order = append(ci.order, post[i])
		ci.reach[post[i]] = true
	}
	cfgCache[fn] = ci
	return ci
}

type inEdge struct {
	cond Term
	st   State
	from *ssa.BasicBlock
}

type retRec struct {
	pc      Term
	st      State
	results []Term
}

func (ex *Exec) mergeStates(edges []inEdge) State {
	if len(edges) == 1 {
		return edges[0].st
	}
	keys := map[string]bool{}
	for _, e := range edges {
		for k := range e.st.m {
			keys[k] = true
		}
	}
	out := map[string]Term{}
	for _, k := range sortedKeys(keys) {
		var first Term
		same := true
		vals := make([]Term, len(edges))
		// lazily havoc'd keys (sort still unknown): materialise when the sort is known by now,
		// otherwise the merge of never-read arbitrary arrays is again a never-read arbitrary array
		hasTok, allSameTok := false, true
		firstTok := ""
		for _, e := range edges {
			if v, ok := e.st.m[k]; ok && strings.HasPrefix(v.S, "?hv") {
				hasTok = true
				if firstTok == "" {
					firstTok = v.S
				} else if firstTok != v.S {
					allSameTok = false
				}
			} else {
				allSameTok = false
			}
		}
		if hasTok {
			if allSameTok {
				out[k] = edges[0].st.m[k]
				continue
			}
			so, known := ex.keySort[k]
			if !known {
				ex.nLazy++
				out[k] = Term{S: fmt.Sprintf("?hv%d", ex.nLazy)}
				continue
			}
			for i := range edges {
				if v, ok := edges[i].st.m[k]; ok && strings.HasPrefix(v.S, "?hv") {
					edges[i].st = edges[i].st.with(k, ex.get(edges[i].st, k, so))
				}
			}
		}
		for i, e := range edges {
			v, ok := e.st.m[k]
			if !ok {
				v, ok = ex.initKey[k]
				if !ok {
					// key unknown on this path (e.g. local allocated on another branch)
					v = Term{}
				}
			}
			vals[i] = v
			if v.S == "" {
				continue
			}
			if first.S == "" {
				first = v
			} else if v.S != first.S {
				same = false
			}
		}
		if same {
			out[k] = first
			continue
		}
		// Exactly one incoming edge is taken, so the most frequent value can serve
		// as the default and only the edges that differ need an ite.
		freq := map[string]int{}
		best := ""
		for i := range edges {
			if vals[i].S == "" {
				continue
			}
			freq[vals[i].S]++
			if best == "" || freq[vals[i].S] > freq[best] {
				best = vals[i].S
			}
		}
		acc := Term{}
		for i := range edges {
			if vals[i].S == best {
				acc = vals[i]
				break
			}
		}
		for i := len(edges) - 1; i >= 0; i-- {
			if vals[i].S == "" || vals[i].S == best {
				continue
			}
			acc = ite(edges[i].cond, vals[i], acc)
		}
		out[k] = ex.vc.def("M_"+shortKey(k), acc)
	}
	return State{out}
}

// execFn symbolically executes fn from the given state; returns the merged
// state at normal return together with the return path condition and results.
func (ex *Exec) execFn(fr *Frame, pc Term, st State) (Term, State, []Term) {
	fn := fr.fn
	if fn.Blocks == nil {
		panic("execFn without body: " + fn.String())
	}
	ci := analyzeCFG(fn)
	in := map[*ssa.BasicBlock][]inEdge{}
	in[fn.Blocks[0]] = []inEdge{{cond: pc, st: st}}
	fr.entry = st
	var rets []retRec
	isRoot := fr.parent == nil
	done := map[*ssa.BasicBlock]bool{}
	for _, b := range ci.order {
		if fn.Recover != nil && b == fn.Recover {
			continue
		}
		edges := in[b]
		done[b] = true
		for _, p := range b.Preds {
			if !done[p] && ci.reach[p] && !ci.isBack[[2]int{p.Index, b.Index}] && p != fn.Recover {
				// a forward predecessor has not been executed yet: the block order is not topological
				ex.outsideSubset(fmt.Sprintf("control-flow graph of %s is not reducible to a topological order (block %d before its predecessor %d)", fn.Name(), b.Index, p.Index))
			}
		}
		if len(edges) == 0 {
			continue
		}
		conds := make([]Term, len(edges))
		for i, e := range edges {
			conds[i] = e.cond
		}
		bpc := ex.vc.def(fmt.Sprintf("pc_%d_b%d", fr.inst, b.Index), or(conds...))
		bst := ex.mergeStates(edges)
		// phis
		for _, instr := range b.Instrs {
			phi, ok := instr.(*ssa.Phi)
			if !ok {
				break
			}
			var acc Term
			for i := len(edges) - 1; i >= 0; i-- {
				var idx = -1
				for pi, p := range b.Preds {
					if p == edges[i].from {
						idx = pi
					}
				}
				if idx < 0 {
					continue
				}
				v := ex.val(fr, phi.Edges[idx])
				if acc.S == "" {
					acc = v
				} else {
					acc = ite(edges[i].cond, v, acc)
				}
			}
			if acc.S == "" {
				acc = ex.vc.fresh("phi", ex.te.sortOf(phi.Type()))
			}
			fr.vals[phi] = ex.vc.def("phi", acc)
		}
		var li *loopInfo
		if l, ok := ci.loops[b]; ok {
			li = l
			bpc, bst = ex.loopHead(fr, li, bpc, bst)
		}
		if isRoot && ex.fc != nil && ex.fc.Cover {
			// reachability cover per block is added selectively (returns)
		}
		bst, term := ex.execBlock(fr, b, bpc, bst)
		if term {
			continue
		}
		last := b.Instrs[len(b.Instrs)-1]
		switch t := last.(type) {
		case *ssa.If:
			c := ex.val(fr, t.Cond)
			ex.pushEdge(fr, ci, in, b, b.Succs[0], ex.vc.def("e", and(bpc, c)), bst)
			ex.pushEdge(fr, ci, in, b, b.Succs[1], ex.vc.def("e", and(bpc, not(c))), bst)
		case *ssa.Jump:
			ex.pushEdge(fr, ci, in, b, b.Succs[0], bpc, bst)
		case *ssa.Return:
			var rs []Term
			for _, r := range t.Results {
				rs = append(rs, ex.val(fr, r))
			}
			rets = append(rets, retRec{pc: bpc, st: bst, results: rs})
			if isRoot {
				ex.ensuresAt(fr, bpc, bst, rs, t.Pos())
			}
		case *ssa.Panic:
			// handled in execBlock
		}
	}
	if len(rets) == 0 {
		return tFalse, st, nil
	}
	conds := make([]Term, len(rets))
	edges := make([]inEdge, len(rets))
	for i, r := range rets {
		conds[i] = r.pc
		edges[i] = inEdge{cond: r.pc, st: r.st}
	}
	rpc := ex.vc.def(fmt.Sprintf("ret_%d", fr.inst), or(conds...))
	rst := ex.mergeStates(edges)
	var results []Term
	if n := len(rets[0].results); n > 0 {
		results = make([]Term, n)
		for j := 0; j < n; j++ {
			acc := rets[len(rets)-1].results[j]
			for i := len(rets) - 2; i >= 0; i-- {
				acc = ite(rets[i].pc, rets[i].results[j], acc)
			}
			results[j] = ex.vc.def("res", acc)
		}
	}
	return rpc, rst, results
}

func (ex *Exec) pushEdge(fr *Frame, ci *cfgInfo, in map[*ssa.BasicBlock][]inEdge, from, to *ssa.BasicBlock, cond Term, st State) {
	if ci.isBack[[2]int{from.Index, to.Index}] {
		ex.loopBack(fr, ci.loops[to], cond, st)
		return
	}
	in[to] = append(in[to], inEdge{cond: cond, st: st, from: from})
}

func posOf(fn *ssa.Function, p token.Pos) string {
	if !p.IsValid() {
		p = fn.Pos()
	}
	pp := fn.Prog.Fset.Position(p)
	return fmt.Sprintf("%s:%d", strings.TrimPrefix(pp.Filename, "/repo/"), pp.Line)
}

// initGlobalValue: the value of an interface-typed package variable that is assigned exactly
// once, in its package initialiser (io.EOF and its kind). It is a constant of the program: no
// call can change it, it is not nil, and two such variables made by separate errors.New /
// fmt.Errorf calls hold different values (each is a pointer to its own allocation).
func (ex *Exec) initGlobalValue(gv *ssa.Global) (Term, bool) {
	if !ex.g.initNonNil(gv) {
		return Term{}, false
	}
	if ex.initGlobals == nil {
		ex.initGlobals = map[*ssa.Global]Term{}
	}
	if t, ok := ex.initGlobals[gv]; ok {
		return t, true
	}
	t := ex.vc.fresh(fmt.Sprintf("ginit_%d", ex.g.globalID(gv)), SIface)
	ex.vc.assume(tTrue, not(eq(app(SInt, "itag", t), intLit(0))), "package-level error value set once at init")
	if ex.g.freshErr[gv] {
		for other, ot := range ex.initGlobals {
			if ex.g.freshErr[other] {
				ex.vc.assume(tTrue, not(eq(t, ot)), "error values made by separate errors.New calls at init are different")
			}
		}
	}
	ex.initGlobals[gv] = t
	ex.assumed["package-level error variables that are assigned once, in their package initialiser, are constants (io.EOF and its kind)"] = true
	return t, true
}
