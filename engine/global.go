package main

import (
	"fmt"
	"go/token"
	"go/types"
	"os"
	"sort"
	"strings"
	"time"

	"golang.org/x/tools/go/callgraph"
	"golang.org/x/tools/go/callgraph/cha"
	"golang.org/x/tools/go/callgraph/vta"
	"golang.org/x/tools/go/packages"
	"golang.org/x/tools/go/ssa"
	"golang.org/x/tools/go/ssa/ssautil"
)

type Global struct {
	famCache   map[*ssa.FreeVar]map[*ssa.Function]bool
	reflective map[string]bool
	pkgByPath  map[string]*packages.Package
	reachCache map[string]bool
	prog     *ssa.Program
	pkgs     []*packages.Package
	cs       *Contracts
	fnByID   map[string]*ssa.Function
	allFns   []*ssa.Function
	cellMode map[string]bool
	globals  map[*ssa.Global]int
	cg       *callgraph.Graph
	frames   map[*ssa.Function]map[string]bool
	direct   map[*ssa.Function]map[string]bool
	typeByID map[string]types.Type
	frameBits map[*ssa.Function][]uint64
	frameBitsExt map[*ssa.Function][]uint64
	framesExt map[*ssa.Function]map[string]bool
	keyName  []string
	nonNil   map[*ssa.Global]bool
	freshErr map[*ssa.Global]bool // assigned once, at init, from errors.New / fmt.Errorf: a pointer nobody else holds
	loadS    float64
	frameS   float64
	repo     string
}

func fnID(fn *ssa.Function) string {
	if o := fn.Origin(); o != nil && o != fn {
		// an instance of a generic function is named (and specified) as its generic origin
		return fnID(o)
	}
	if fn.Parent() != nil {
		if v := literalVarName(fn); v != "" {
			return fnID(fn.Parent()) + "$" + v
		}
	}
	if fn.Pkg != nil {
		return fn.Pkg.Pkg.Path() + "." + fn.RelString(fn.Pkg.Pkg)
	}
	if fn.Parent() != nil {
		// a function literal assigned to a variable is named after the variable
		// (Run$completePiece), so that adding or removing another literal does not rename it;
		// other literals keep go/ssa's ordinal (Run$1)
		if v := literalVarName(fn); v != "" {
			return fnID(fn.Parent()) + "$" + v
		}
		p := fn
		for p.Parent() != nil {
			p = p.Parent()
		}
		if p.Pkg != nil {
			return p.Pkg.Pkg.Path() + "." + fn.RelString(p.Pkg.Pkg)
		}
	}
	return fn.String()
}

var litNameCache = map[*ssa.Function]string{}

// literalVarName: the name of the local variable a function literal is assigned
// to, when exactly one literal of the parent is assigned to a variable of that name.
func literalVarName(fn *ssa.Function) string {
	if n, ok := litNameCache[fn]; ok {
		return n
	}
	parent := fn.Parent()
	names := map[*ssa.Function]string{}
	count := map[string]int{}
	for _, b := range parent.Blocks {
		for _, in := range b.Instrs {
			mc, ok := in.(*ssa.MakeClosure)
			if !ok || mc.Referrers() == nil {
				continue
			}
			lit, ok := mc.Fn.(*ssa.Function)
			if !ok {
				continue
			}
			for _, r := range *mc.Referrers() {
				if st, ok := r.(*ssa.Store); ok && st.Val == mc {
					if al, ok := st.Addr.(*ssa.Alloc); ok && al.Comment != "" && isIdent(al.Comment) {
						if _, dup := names[lit]; !dup {
							names[lit] = al.Comment
							count[al.Comment]++
						}
					}
				}
			}
		}
	}
	for _, lit := range parent.AnonFuncs {
		n := names[lit]
		if n != "" && count[n] != 1 {
			n = ""
		}
		litNameCache[lit] = n
	}
	return litNameCache[fn]
}

func isIdent(s string) bool {
	for i, r := range s {
		if !(r == '_' || (r >= 'a' && r <= 'z') || (r >= 'A' && r <= 'Z') || (i > 0 && r >= '0' && r <= '9')) {
			return false
		}
	}
	return s != ""
}

func isRainFn(fn *ssa.Function) bool {
	p := fn
	for p.Parent() != nil {
		p = p.Parent()
	}
	if p.Pkg == nil {
		// instantiated generics / wrappers: use origin
		if p.Origin() != nil && p.Origin().Pkg != nil {
			return strings.HasPrefix(p.Origin().Pkg.Pkg.Path(), strings.TrimSuffix(modPrefix, "/"))
		}
		return false
	}
	return strings.HasPrefix(p.Pkg.Pkg.Path(), strings.TrimSuffix(modPrefix, "/"))
}

func fnPkgPath(fn *ssa.Function) string {
	p := fn
	for p.Parent() != nil {
		p = p.Parent()
	}
	if p.Pkg != nil {
		return p.Pkg.Pkg.Path()
	}
	if p.Origin() != nil && p.Origin().Pkg != nil {
		return p.Origin().Pkg.Pkg.Path()
	}
	if recv := p.Signature.Recv(); recv != nil {
		t := recv.Type()
		if pt, ok := t.(*types.Pointer); ok {
			t = pt.Elem()
		}
		if n, ok := types.Unalias(t).(*types.Named); ok && n.Obj().Pkg() != nil {
			return n.Obj().Pkg().Path()
		}
	}
	return ""
}

func loadGlobal(repo string) (*Global, error) {
	t0 := time.Now()
	env := []string{}
	for _, e := range os.Environ() {
		if strings.HasPrefix(e, "GOFLAGS=") || strings.HasPrefix(e, "GOTOOLCHAIN=") || strings.HasPrefix(e, "GOPROXY=") || strings.HasPrefix(e, "GOSUMDB=") {
			continue
		}
		env = append(env, e)
	}
	env = append(env, "GOPROXY=off", "GOFLAGS=-mod=mod")
	cfg := &packages.Config{Mode: packages.LoadAllSyntax, Dir: repo, BuildFlags: []string{"-tags=verif"}, Env: env}
	pkgs, err := packages.Load(cfg, "./...")
	if err != nil {
		return nil, err
	}
	nerr := 0
	packages.Visit(pkgs, nil, func(p *packages.Package) {
		for _, e := range p.Errors {
			if nerr < 10 {
				fmt.Fprintln(os.Stderr, "load error:", e)
			}
			nerr++
		}
	})
	if nerr > 0 {
		return nil, fmt.Errorf("%d package load errors (does /repo compile?)", nerr)
	}
	prog, _ := ssautil.AllPackages(pkgs, ssa.NaiveForm|ssa.InstantiateGenerics|ssa.GlobalDebug)
	prog.Build()
	g := &Global{prog: prog, pkgs: pkgs, fnByID: map[string]*ssa.Function{}, cellMode: map[string]bool{}, globals: map[*ssa.Global]int{}, typeByID: map[string]types.Type{}, repo: repo}
	for fn := range ssautil.AllFunctions(prog) {
		g.allFns = append(g.allFns, fn)
	}
	sort.Slice(g.allFns, func(i, j int) bool { return g.allFns[i].String() < g.allFns[j].String() })
	for _, fn := range g.allFns {
		if isRainFn(fn) {
			id := fnID(fn)
			// several functions share an id when they are instances of one generic function:
			// the generic origin (verified once, for every type argument) wins, then any
			// instance with a body
			if cur, ok := g.fnByID[id]; ok {
				curOrigin := cur.Origin() == nil || cur.Origin() == cur
				if cur.Blocks != nil && (curOrigin || fn.Blocks == nil || (fn.Origin() != nil && fn.Origin() != fn)) {
					continue
				}
			}
			g.fnByID[id] = fn
		}
	}
	g.scanCellMode()
	g.loadS = time.Since(t0).Seconds()
	cs, err := loadContracts(repo)
	if err != nil {
		return nil, err
	}
	g.cs = cs
	theGlobal = g
	return g, nil
}

// initNonNil: an interface-typed package variable that is assigned only in
// its package initialiser, from errors.New / fmt.Errorf / a boxed value.
func (g *Global) initNonNil(v *ssa.Global) bool {
	if g.nonNil == nil {
		g.nonNil = map[*ssa.Global]bool{}
		g.freshErr = map[*ssa.Global]bool{}
		bad := map[*ssa.Global]bool{}
		for _, fn := range g.allFns {
			for _, b := range fn.Blocks {
				for _, in := range b.Instrs {
					st, ok := in.(*ssa.Store)
					if !ok {
						continue
					}
					gv, ok := st.Addr.(*ssa.Global)
					if !ok {
						continue
					}
					good := fn.Synthetic == "package initializer" || fn.Name() == "init"
					if good {
						switch val := st.Val.(type) {
						case *ssa.Call:
							callee := val.Common().StaticCallee()
							good = callee != nil && (callee.String() == "errors.New" || callee.String() == "fmt.Errorf")
						case *ssa.MakeInterface:
						default:
							good = false
						}
					}
					if good && !bad[gv] && !g.nonNil[gv] {
						g.nonNil[gv] = true
						_, isCall := st.Val.(*ssa.Call)
						g.freshErr[gv] = isCall
					} else {
						// assigned more than once, or outside init, or from something else
						bad[gv] = true
						delete(g.nonNil, gv)
						delete(g.freshErr, gv)
					}
				}
			}
		}
	}
	return g.nonNil[v]
}

func (g *Global) globalID(v *ssa.Global) int {
	if id, ok := g.globals[v]; ok {
		return id
	}
	id := len(g.globals) + 1
	g.globals[v] = id
	return id
}

func (g *Global) buildFrames() {
	if g.cg != nil {
		return
	}
	t0 := time.Now()
	g.cg = cha.CallGraph(g.prog)
	if os.Getenv("RAINVC_CG") != "cha" {
		// Variable-type analysis refines the interface and function-value edges of CHA:
		// it keeps only the callees whose receiver/function values can flow to the call site.
		fns := map[*ssa.Function]bool{}
		for _, fn := range g.allFns {
			fns[fn] = true
		}
		g.cg = vta.CallGraph(fns, g.cg)
	}
	g.computeFrames()
	g.frameS = time.Since(t0).Seconds()
}

// lookupType resolves "pkg.Type" or "*pkg.Type" written relative to the rain
// module ("internal/piece.Piece") or as a full path.
func (g *Global) lookupType(s string) types.Type {
	if t, ok := g.typeByID[s]; ok {
		return t
	}
	ptr := 0
	name := s
	for strings.HasPrefix(name, "*") {
		ptr++
		name = name[1:]
	}
	i := strings.LastIndex(name, ".")
	if i < 0 {
		return nil
	}
	pkgPath, tn := name[:i], name[i+1:]
	for _, p := range g.prog.AllPackages() {
		pp := p.Pkg.Path()
		if pp == pkgPath || pp == modPrefix+pkgPath || strings.HasSuffix(pp, "/"+pkgPath) {
			if obj := p.Pkg.Scope().Lookup(tn); obj != nil {
				if tnObj, ok := obj.(*types.TypeName); ok {
					var t types.Type = tnObj.Type()
					for k := 0; k < ptr; k++ {
						t = types.NewPointer(t)
					}
					g.typeByID[s] = t
					return t
				}
			}
		}
	}
	return nil
}

// scalarField: field types that live in a single heap cell.
func scalarType(t types.Type) bool {
	if isStruct(t) {
		return false
	}
	if _, ok := isArray(t); ok {
		return false
	}
	return true
}

func isAtomicFn(fn *ssa.Function) bool {
	if fn == nil {
		return false
	}
	return fnPkgPath(fn) == "sync/atomic" || (fnPkgPath(fn) == "sync" && fn.Signature.Recv() != nil)
}

func (g *Global) scanCellMode() {
	for _, fn := range g.allFns {
		for _, b := range fn.Blocks {
			for _, in := range b.Instrs {
				fa, ok := in.(*ssa.FieldAddr)
				if !ok {
					continue
				}
				st := fa.X.Type().Underlying().(*types.Pointer).Elem()
				ft := st.Underlying().(*types.Struct).Field(fa.Field).Type()
				if !scalarType(ft) {
					continue
				}
				refs := fa.Referrers()
				if refs == nil {
					continue
				}
				for _, r := range *refs {
					okUse := false
					switch r := r.(type) {
					case *ssa.UnOp:
						okUse = r.Op == token.MUL
					case *ssa.Store:
						okUse = r.Addr == fa && r.Val != fa
					case *ssa.DebugRef:
						okUse = true
					case ssa.CallInstruction:
						c := r.Common()
						if callee := c.StaticCallee(); callee != nil && isAtomicFn(callee) && len(c.Args) > 0 && c.Args[0] == fa {
							okUse = true
							for _, a := range c.Args[1:] {
								if a == fa {
									okUse = false
								}
							}
						}
					}
					if !okUse {
						g.cellMode[fmt.Sprintf("%s#%d", typeKey(st), fa.Field)] = true
					}
				}
			}
		}
	}
}
