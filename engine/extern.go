package main

import (
	"fmt"

	"golang.org/x/tools/go/ssa"
)

// externModel gives exact semantics to a library function. Every model used by
// a proof is listed in the evidence under trusted_base.
type externModel func(ex *Exec, fr *Frame, instr ssa.CallInstruction, c *ssa.CallCommon, args []Term, pc Term, st State) (State, Term, bool)

var externModels = map[string]externModel{}

func init() {
	for _, w := range []struct {
		name string
		n    int
	}{{"Uint16", 2}, {"Uint32", 4}, {"Uint64", 8}} {
		n := w.n
		externModels["(encoding/binary.bigEndian)."+w.name] = func(ex *Exec, fr *Frame, instr ssa.CallInstruction, c *ssa.CallCommon, args []Term, pc Term, st State) (State, Term, bool) {
			ex.modelUsed("encoding/binary.BigEndian.Uint*: big-endian decode of the first n bytes")
			b := args[len(args)-1]
			inb := app(SBool, "<=", intLit(int64(n)), sLen(b))
			ex.safetyObl(fr, "bounds", instr.Pos(), pc, inb, "BigEndian read needs n bytes")
			ex.vc.assume(pc, inb, "BigEndian read in range")
			h := ex.get(st, "C|uint8", arraySort(SRef, SInt))
			var parts []Term
			for i := 0; i < n; i++ {
				byteV := sel(h, refElem(sBase(b), app(SInt, "+", sOff(b), intLit(int64(i)))), SInt)
				ex.vc.assume(tTrue, and(app(SBool, "<=", intLit(0), byteV), app(SBool, "<=", byteV, intLit(255))), "byte range")
				parts = append(parts, app(SInt, "*", byteV, bigLit(pow2(uint(8*(n-1-i))))))
			}
			return st, ex.vc.def("be", app(SInt, "+", parts...)), true
		}
		externModels["(encoding/binary.bigEndian).Put"+w.name] = func(ex *Exec, fr *Frame, instr ssa.CallInstruction, c *ssa.CallCommon, args []Term, pc Term, st State) (State, Term, bool) {
			ex.modelUsed("encoding/binary.BigEndian.PutUint*: big-endian encode into the first n bytes")
			b, v := args[len(args)-2], args[len(args)-1]
			inb := app(SBool, "<=", intLit(int64(n)), sLen(b))
			ex.safetyObl(fr, "bounds", instr.Pos(), pc, inb, "BigEndian write needs n bytes")
			ex.vc.assume(pc, inb, "BigEndian write in range")
			h := ex.get(st, "C|uint8", arraySort(SRef, SInt))
			for i := 0; i < n; i++ {
				sh := bigLit(pow2(uint(8 * (n - 1 - i))))
				byteV := app(SInt, "mod", app(SInt, "div", v, sh), intLit(256))
				h = sto(h, refElem(sBase(b), app(SInt, "+", sOff(b), intLit(int64(i)))), byteV)
			}
			return st.with("C|uint8", ex.vc.def("H_C_uint8", h)), Term{}, true
		}
	}
	externModels["bytes.Equal"] = func(ex *Exec, fr *Frame, instr ssa.CallInstruction, c *ssa.CallCommon, args []Term, pc Term, st State) (State, Term, bool) {
		ex.modelUsed("bytes.Equal: lengths equal and all bytes equal")
		a, b := args[0], args[1]
		h := ex.get(st, "C|uint8", arraySort(SRef, SInt))
		r := ex.vc.fresh("byteseq", SBool)
		all := T(fmt.Sprintf("(forall ((i Int)) (! (=> (and (<= 0 i) (< i %s)) (= (select %s (at %s i)) (select %s (at %s i)))) :pattern ((select %s (at %s i)))))",
			sLen(a).S, h.S, a.S, h.S, b.S, h.S, a.S), SBool)
		ex.vc.assume(tTrue, eq(r, and(eq(sLen(a), sLen(b)), all)), "bytes.Equal")
		return st, r, true
	}
	externModels["errors.New"] = func(ex *Exec, fr *Frame, instr ssa.CallInstruction, c *ssa.CallCommon, args []Term, pc Term, st State) (State, Term, bool) {
		ex.modelUsed("errors.New / fmt.Errorf: result is a non-nil error")
		r := ex.vc.fresh("err", SIface)
		ex.vc.assume(tTrue, not(eq(app(SInt, "itag", r), intLit(0))), "errors.New non-nil")
		return st, r, true
	}
	externModels["fmt.Errorf"] = externModels["errors.New"]
	// io.ReadFull / io.ReadAtLeast: 0 <= n <= len(buf); err == nil implies n >= min (ReadFull: n == len(buf)).
	// The bytes read are unknown (the buffer's cells are havoc'd by the call's inferred frame).
	readModel := func(full bool) externModel {
		return func(ex *Exec, fr *Frame, instr ssa.CallInstruction, c *ssa.CallCommon, args []Term, pc Term, st State) (State, Term, bool) {
			ex.modelUsed("io.ReadFull / io.ReadAtLeast: 0 <= n <= len(buf), and n >= min when err == nil")
			keys := ex.g.siteFrame(instr)
			before := st
			st = ex.havocKeys(st, keys, "io.Read*")
			ex.preserveLocals(fr, pc, before, st, keys, c)
			buf := args[1]
			n := ex.vc.fresh("nread", SInt)
			err := ex.vc.fresh("readerr", SIface)
			min := sLen(buf)
			if !full {
				min = args[2]
			}
			ex.vc.assume(tTrue, and(app(SBool, "<=", intLit(0), n), app(SBool, "<=", n, sLen(buf)),
				implies(eq(app(SInt, "itag", err), intLit(0)), app(SBool, ">=", n, min))), "io read result")
			return st, Term{Tuple: []Term{n, err}}, true
		}
	}
	externModels["io.ReadFull"] = readModel(true)
	externModels["io.ReadAtLeast"] = readModel(false)
}

func (ex *Exec) modelUsed(s string) { ex.assumed["library model: "+s] = true }
