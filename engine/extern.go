package main

import (
	"fmt"
	"go/types"
	"strings"

	"golang.org/x/tools/go/ssa"
)

// externModel gives exact semantics to a library function. Every model used by
// a proof is listed in the evidence under trusted_base.
type externModel func(ex *Exec, fr *Frame, instr ssa.CallInstruction, c *ssa.CallCommon, args []Term, pc Term, st State) (State, Term, bool)

var externModels = map[string]externModel{}

func init() {
	for _, w := range []struct {
		name string
		n    int
	}{{"Uint16", 2}, {"Uint32", 4}, {"Uint64", 8}} {
		n := w.n
		externModels["(encoding/binary.bigEndian)."+w.name] = func(ex *Exec, fr *Frame, instr ssa.CallInstruction, c *ssa.CallCommon, args []Term, pc Term, st State) (State, Term, bool) {
			ex.modelUsed("encoding/binary.BigEndian.Uint*: big-endian decode of the first n bytes")
			b := args[len(args)-1]
			inb := app(SBool, "<=", intLit(int64(n)), sLen(b))
			ex.safetyObl(fr, "bounds", instr.Pos(), pc, inb, "BigEndian read needs n bytes")
			ex.vc.assume(pc, inb, "BigEndian read in range")
			h := ex.get(st, "C|uint8", arraySort(SRef, SInt))
			var parts []Term
			for i := 0; i < n; i++ {
				byteV := sel(h, refElem(sBase(b), app(SInt, "+", sOff(b), intLit(int64(i)))), SInt)
				ex.vc.assume(tTrue, and(app(SBool, "<=", intLit(0), byteV), app(SBool, "<=", byteV, intLit(255))), "byte range")
				parts = append(parts, app(SInt, "*", byteV, bigLit(pow2(uint(8*(n-1-i))))))
			}
			return st, ex.vc.def("be", app(SInt, "+", parts...)), true
		}
		externModels["(encoding/binary.bigEndian).Put"+w.name] = func(ex *Exec, fr *Frame, instr ssa.CallInstruction, c *ssa.CallCommon, args []Term, pc Term, st State) (State, Term, bool) {
			ex.modelUsed("encoding/binary.BigEndian.PutUint*: big-endian encode into the first n bytes")
			b, v := args[len(args)-2], args[len(args)-1]
			inb := app(SBool, "<=", intLit(int64(n)), sLen(b))
			ex.safetyObl(fr, "bounds", instr.Pos(), pc, inb, "BigEndian write needs n bytes")
			ex.vc.assume(pc, inb, "BigEndian write in range")
			h := ex.get(st, "C|uint8", arraySort(SRef, SInt))
			for i := 0; i < n; i++ {
				sh := bigLit(pow2(uint(8 * (n - 1 - i))))
				byteV := app(SInt, "mod", app(SInt, "div", v, sh), intLit(256))
				h = sto(h, refElem(sBase(b), app(SInt, "+", sOff(b), intLit(int64(i)))), byteV)
			}
			return st.with("C|uint8", ex.vc.def("H_C_uint8", h)), Term{}, true
		}
	}
	externModels["bytes.Equal"] = func(ex *Exec, fr *Frame, instr ssa.CallInstruction, c *ssa.CallCommon, args []Term, pc Term, st State) (State, Term, bool) {
		ex.modelUsed("bytes.Equal: lengths equal and all bytes equal")
		a, b := args[0], args[1]
		h := ex.get(st, "C|uint8", arraySort(SRef, SInt))
		r := ex.vc.fresh("byteseq", SBool)
		all := T(fmt.Sprintf("(forall ((i Int)) (! (=> (and (<= 0 i) (< i %s)) (= (select %s (at %s i)) (select %s (at %s i)))) :pattern ((select %s (at %s i)))))",
			sLen(a).S, h.S, a.S, h.S, b.S, h.S, a.S), SBool)
		ex.vc.assume(tTrue, eq(r, and(eq(sLen(a), sLen(b)), all)), "bytes.Equal")
		return st, r, true
	}
	externModels["errors.New"] = func(ex *Exec, fr *Frame, instr ssa.CallInstruction, c *ssa.CallCommon, args []Term, pc Term, st State) (State, Term, bool) {
		ex.modelUsed("errors.New / fmt.Errorf: result is a non-nil error")
		r := ex.vc.fresh("err", SIface)
		ex.vc.assume(tTrue, not(eq(app(SInt, "itag", r), intLit(0))), "errors.New non-nil")
		return st, r, true
	}
	externModels["fmt.Errorf"] = externModels["errors.New"]
	// io.ReadFull / io.ReadAtLeast: 0 <= n <= len(buf); err == nil implies n >= min (ReadFull: n == len(buf)).
	// The bytes read are unknown (the buffer's cells are havoc'd by the call's inferred frame).
	readModel := func(full bool) externModel {
		return func(ex *Exec, fr *Frame, instr ssa.CallInstruction, c *ssa.CallCommon, args []Term, pc Term, st State) (State, Term, bool) {
			ex.modelUsed("io.ReadFull / io.ReadAtLeast: 0 <= n <= len(buf), and n >= min when err == nil")
			keys := ex.g.siteFrame(instr)
			before := st
			st = ex.havocKeys(st, keys, "io.Read*")
			ex.preserveLocals(fr, pc, before, st, keys, c)
			buf := args[1]
			n := ex.vc.fresh("nread", SInt)
			err := ex.vc.fresh("readerr", SIface)
			min := sLen(buf)
			if !full {
				min = args[2]
			}
			ex.vc.assume(tTrue, and(app(SBool, "<=", intLit(0), n), app(SBool, "<=", n, sLen(buf)),
				implies(eq(app(SInt, "itag", err), intLit(0)), app(SBool, ">=", n, min))), "io read result")
			return st, Term{Tuple: []Term{n, err}}, true
		}
	}
	externModels["io.ReadFull"] = readModel(true)
	externModels["io.ReadAtLeast"] = readModel(false)
}

func (ex *Exec) modelUsed(s string) { ex.assumed["library model: "+s] = true }

// ---- bytes.Buffer (write side) ----
//
// The models below describe a Buffer whose read offset is 0 (nothing has been
// read from it): then Bytes() is the whole internal slice, and Write/ReadFrom
// behave like append on that slice: in place when the capacity suffices,
// otherwise into a fresh allocation (bytes.Buffer.grow never slides data when
// off == 0). Each use emits an obligation that off == 0.

func bufferType(callee *ssa.Function) (types.Type, int, int) {
	var pt types.Type
	if callee.Signature.Recv() != nil {
		pt = callee.Signature.Recv().Type()
	} else {
		pt = callee.Signature.Results().At(0).Type()
	}
	t := pt.Underlying().(*types.Pointer).Elem()
	stt := t.Underlying().(*types.Struct)
	bi, oi := -1, -1
	for i := 0; i < stt.NumFields(); i++ {
		switch stt.Field(i).Name() {
		case "buf":
			bi = i
		case "off":
			oi = i
		}
	}
	return t, bi, oi
}

func (ex *Exec) bufferOffZero(fr *Frame, instr ssa.CallInstruction, pc Term, st State, recv Term, t types.Type, oi int) {
	off := ex.load(st, pc, ex.fieldAddr(recv, t, oi), types.Typ[types.Int])
	ex.nSafety["model.buffer"]++
	o := &Obligation{ID: fmt.Sprintf("%s#model.buffer%d", ex.fnID, ex.nSafety["model.buffer"]), Func: ex.fnID, Kind: "model.pre", Props: ex.props, Where: posOf(fr.fn, instr.Pos()), Detail: "bytes.Buffer model applies to a buffer nothing was read from (off == 0)"}
	ex.vc.oblige(o, pc, eq(off, intLit(0)))
}

func init() {
	byteT := types.Typ[types.Uint8]
	byteSlice := types.NewSlice(byteT)
	externModels["bytes.NewBuffer"] = func(ex *Exec, fr *Frame, instr ssa.CallInstruction, c *ssa.CallCommon, args []Term, pc Term, st State) (State, Term, bool) {
		if ex.fc == nil || !ex.fc.Models["bytes.Buffer"] {
			return st, Term{}, false // opt-in: `model bytes.Buffer` in the function's contract
		}
		ex.modelUsed("bytes.NewBuffer(b): a new Buffer whose contents are b and whose read offset is 0")
		t, bi, _ := bufferType(c.StaticCallee())
		ex.nLoc++
		r := refLoc(ex.nLoc)
		st = ex.store(st, pc, &Addr{Ref: r, Elem: t}, t, ex.te.zero(t))
		st = ex.store(st, pc, ex.fieldAddr(r, t, bi), byteSlice, args[0])
		return st, r, true
	}
	externModels["(*bytes.Buffer).Bytes"] = func(ex *Exec, fr *Frame, instr ssa.CallInstruction, c *ssa.CallCommon, args []Term, pc Term, st State) (State, Term, bool) {
		if ex.fc == nil || !ex.fc.Models["bytes.Buffer"] {
			return st, Term{}, false // opt-in: `model bytes.Buffer` in the function's contract
		}
		ex.modelUsed("(*bytes.Buffer).Bytes/Len with read offset 0: the internal slice and its length")
		t, bi, oi := bufferType(c.StaticCallee())
		ex.bufferOffZero(fr, instr, pc, st, args[0], t, oi)
		return st, ex.load(st, pc, ex.fieldAddr(args[0], t, bi), byteSlice), true
	}
	externModels["(*bytes.Buffer).Len"] = func(ex *Exec, fr *Frame, instr ssa.CallInstruction, c *ssa.CallCommon, args []Term, pc Term, st State) (State, Term, bool) {
		if ex.fc == nil || !ex.fc.Models["bytes.Buffer"] {
			return st, Term{}, false // opt-in: `model bytes.Buffer` in the function's contract
		}
		ex.modelUsed("(*bytes.Buffer).Bytes/Len with read offset 0: the internal slice and its length")
		t, bi, oi := bufferType(c.StaticCallee())
		ex.bufferOffZero(fr, instr, pc, st, args[0], t, oi)
		return st, sLen(ex.load(st, pc, ex.fieldAddr(args[0], t, bi), byteSlice)), true
	}
	externModels["(*bytes.Buffer).Write"] = func(ex *Exec, fr *Frame, instr ssa.CallInstruction, c *ssa.CallCommon, args []Term, pc Term, st State) (State, Term, bool) {
		if ex.fc == nil || !ex.fc.Models["bytes.Buffer"] {
			return st, Term{}, false // opt-in: `model bytes.Buffer` in the function's contract
		}
		ex.modelUsed("(*bytes.Buffer).Write(p) with read offset 0: buf = append(buf, p...), returns (len(p), nil)")
		t, bi, oi := bufferType(c.StaticCallee())
		ex.bufferOffZero(fr, instr, pc, st, args[0], t, oi)
		fa := ex.fieldAddr(args[0], t, bi)
		old := ex.load(st, pc, fa, byteSlice)
		nst, nb := ex.appendCore(pc, st, old, args[1], byteT)
		nst = ex.store(nst, pc, fa, byteSlice, nb)
		return nst, Term{Tuple: []Term{sLen(args[1]), ex.te.zero(c.Signature().Results().At(1).Type())}}, true
	}
	externModels["(*bytes.Buffer).ReadFrom"] = func(ex *Exec, fr *Frame, instr ssa.CallInstruction, c *ssa.CallCommon, args []Term, pc Term, st State) (State, Term, bool) {
		if ex.fc == nil || !ex.fc.Models["bytes.Buffer"] {
			return st, Term{}, false // opt-in: `model bytes.Buffer` in the function's contract
		}
		ex.modelUsed("(*bytes.Buffer).ReadFrom(r) with read offset 0: appends the m >= 0 bytes r produced (contents unknown) keeping the earlier bytes, possibly into a fresh allocation; returns (m, err); r.Read writes only into the slice it is given")
		t, bi, oi := bufferType(c.StaticCallee())
		ex.bufferOffZero(fr, instr, pc, st, args[0], t, oi)
		fa := ex.fieldAddr(args[0], t, bi)
		old := ex.load(st, pc, fa, byteSlice)
		oldH := ex.get(st, "C|uint8", arraySort(SRef, SInt))
		keys := ex.g.siteFrame(instr)
		keys["C|uint8"] = true
		before := st
		st = ex.havocKeys(st, keys, "bytes.Buffer.ReadFrom")
		ex.preserveLocals(fr, pc, before, st, keys, c)
		m := ex.vc.fresh("nread", SInt)
		err := ex.vc.fresh("readerr", SIface)
		ex.nLoc++
		fresh := refLoc(ex.nLoc)
		moved := ex.vc.fresh("realloc", SBool)
		ncap := ex.vc.fresh("newcap", SInt)
		newLen := ex.vc.def("buflen", app(SInt, "+", sLen(old), m))
		nb := ex.vc.def("bufafter", ite(moved, mkSlice(fresh, intLit(0), newLen, ncap), mkSlice(sBase(old), sOff(old), newLen, sCap(old))))
		ex.vc.assume(pc, and(app(SBool, "<=", intLit(0), m), app(SBool, "<=", newLen, ncap), implies(not(moved), app(SBool, "<=", newLen, sCap(old)))), "ReadFrom result")
		newH := ex.get(st, "C|uint8", arraySort(SRef, SInt))
		ex.vc.assume(pc, T(fmt.Sprintf("(forall ((i Int)) (! (=> (and (<= 0 i) (< i %s)) (= (select %s (at %s i)) (select %s (at %s i)))) :pattern ((select %s (at %s i)))))",
			sLen(old).S, newH.S, nb.S, oldH.S, old.S, newH.S, nb.S), SBool), "ReadFrom keeps the earlier bytes")
		// a buffer that was not reallocated leaves every byte outside the appended range alone;
		// the old allocation is untouched when it was reallocated
		ex.vc.assume(pc, T(fmt.Sprintf("(forall ((i Int)) (! (=> (and (<= 0 i) (< i %s)) (= (select %s (at %s i)) (select %s (at %s i)))) :pattern ((select %s (at %s i)))))",
			sLen(old).S, newH.S, old.S, oldH.S, old.S, newH.S, old.S), SBool), "ReadFrom does not touch the earlier bytes in the old allocation")
		st = ex.store(st, pc, fa, byteSlice, nb)
		st = ex.store(st, pc, ex.fieldAddr(args[0], t, oi), types.Typ[types.Int], intLit(0))
		return st, Term{Tuple: []Term{m, err}}, true
	}
}

// externName: the key of a library model; instances of a generic function share
// the model of their origin.
func externName(callee *ssa.Function) string {
	if o := callee.Origin(); o != nil && o != callee {
		return o.String()
	}
	return callee.String()
}

// ---- slices.Index / slices.Contains on slices of scalar (pointer, integer) elements ----

func init() {
	search := func(contains bool) externModel {
		return func(ex *Exec, fr *Frame, instr ssa.CallInstruction, c *ssa.CallCommon, args []Term, pc Term, st State) (State, Term, bool) {
			sl, ok := c.Args[0].Type().Underlying().(*types.Slice)
			if !ok || !scalarType(sl.Elem()) {
				return st, Term{}, false
			}
			ex.modelUsed("slices.Index / slices.Contains: the first index holding the value, or -1 / false when no element equals it")
			s, v := args[0], args[1]
			so := ex.te.sortOf(sl.Elem())
			h := ex.get(st, cellKey(sl.Elem()), arraySort(SRef, so))
			i := ex.vc.fresh("index", SInt)
			at := func(k string) string { return fmt.Sprintf("(select %s (at %s %s))", h.S, s.S, k) }
			ex.vc.assume(pc, T(fmt.Sprintf("(and (<= (- 1) %s) (< %s %s) (=> (>= %s 0) (= %s %s)))", i.S, i.S, sLen(s).S, i.S, at(i.S), v.S), SBool), "slices.Index: result in range and a match")
			ex.vc.assume(pc, T(fmt.Sprintf("(forall ((k Int)) (! (=> (and (<= 0 k) (< k %s) (or (< %s 0) (< k %s))) (not (= %s %s))) :pattern (%s)))", sLen(s).S, i.S, i.S, at("k"), v.S, at("k")), SBool), "slices.Index: no earlier match")
			if contains {
				return st, ex.vc.def("contains", app(SBool, ">=", i, intLit(0))), true
			}
			return st, i, true
		}
	}
	externModels["slices.Index"] = search(false)
	externModels["slices.Contains"] = search(true)
}

// inSliceCells emits (and names) a predicate Ref->Bool that is true for the
// cells of leaf lf that belong to elements [0, n) of slice s.
func (ex *Exec) inSliceCells(lf leafAcc, s, n Term) string {
	ex.vc.n++
	name := fmt.Sprintf("incells!%d", ex.vc.n)
	probe := lf.addr("X")
	up := "r"
	conds := []string{}
	for i := 0; i < strings.Count(probe, "(fld "); i++ {
		conds = append(conds, fmt.Sprintf("((_ is fld) %s)", up))
		up = fmt.Sprintf("(fparent %s)", up)
	}
	conds = append(conds, fmt.Sprintf("((_ is elem) %s)", up), fmt.Sprintf("(= r %s)", lf.addr(up)), fmt.Sprintf("(= (ebase %s) %s)", up, sBase(s).S))
	idx := fmt.Sprintf("(- (eidx %s) %s)", up, sOff(s).S)
	conds = append(conds, fmt.Sprintf("(<= 0 %s)", idx), fmt.Sprintf("(< %s %s)", idx, n.S))
	ex.vc.decls = append(ex.vc.decls, fmt.Sprintf("(define-fun %s ((r Ref)) Bool (and %s))", name, strings.Join(conds, " ")))
	return name
}

// ---- slices.SortFunc: the slice afterwards is a rearrangement of the slice before ----

func init() {
	externModels["slices.SortFunc"] = func(ex *Exec, fr *Frame, instr ssa.CallInstruction, c *ssa.CallCommon, args []Term, pc Term, st State) (State, Term, bool) {
		sl, ok := c.Args[0].Type().Underlying().(*types.Slice)
		if !ok {
			return st, Term{}, false
		}
		el := sl.Elem()
		if containsArray(el) {
			return st, Term{}, false
		}
		ex.modelUsed("slices.SortFunc: the slice afterwards is a rearrangement of the slice before (new[j] = old[perm(j)], perm injective into [0, len)); nothing outside the slice changes except what the comparison function writes")
		s := args[0]
		leaves := ex.leaves(el)
		own := map[string]bool{}
		for _, lf := range leaves {
			own[lf.key] = true
		}
		// effects of the comparison function (and anything else in the inferred frame)
		rest := map[string]bool{}
		for k := range ex.g.siteFrame(instr) {
			if !own[k] {
				rest[k] = true
			}
		}
		if len(rest) > 0 {
			before := st
			st = ex.havocKeys(st, rest, "slices.SortFunc comparison")
			ex.preserveLocals(fr, pc, before, st, rest, c)
		}
		ex.vc.n++
		perm := fmt.Sprintf("perm!%d", ex.vc.n)
		ex.vc.decls = append(ex.vc.decls, fmt.Sprintf("(declare-fun %s (Int) Int)", perm))
		n := sLen(s)
		ex.vc.assume(pc, T(fmt.Sprintf("(forall ((j Int)) (! (=> (and (<= 0 j) (< j %s)) (and (<= 0 (%s j)) (< (%s j) %s))) :pattern ((%s j))))", n.S, perm, perm, n.S, perm), SBool), "sort: rearrangement indices in range")
		// a rearrangement: two places never receive the same old element
		ex.vc.assume(pc, T(fmt.Sprintf("(forall ((j Int) (k Int)) (! (=> (and (<= 0 j) (< j %s) (<= 0 k) (< k %s) (= (%s j) (%s k))) (= j k)) :pattern ((%s j) (%s k))))", n.S, n.S, perm, perm, perm, perm), SBool), "sort: rearrangement is injective")
		for _, lf := range leaves {
			so := arraySort(SRef, lf.so)
			h := ex.get(st, lf.key, so)
			nh := ex.vc.fresh("H_"+shortKey(lf.key), so)
			dst := lf.addr(fmt.Sprintf("(at %s j)", s.S))
			src := lf.addr(fmt.Sprintf("(at %s (%s j))", s.S, perm))
			ex.vc.assume(pc, T(fmt.Sprintf("(forall ((j Int)) (! (=> (and (<= 0 j) (< j %s)) (= (select %s %s) (select %s %s))) :pattern ((select %s %s))))", n.S, nh.S, dst, h.S, src, nh.S, dst), SBool), "sort: element j is the old element perm(j)")
			in := ex.inSliceCells(lf, s, n)
			ex.vc.assume(pc, T(fmt.Sprintf("(forall ((r Ref)) (! (=> (not (%s r)) (= (select %s r) (select %s r))) :pattern ((select %s r))))", in, nh.S, h.S, nh.S), SBool), "sort: frame")
			st = st.with(lf.key, nh)
		}
		return st, Term{}, true
	}
}

// containsArray: the value type holds an array somewhere inside (those cells are
// not tracked element-wise by the slice models).
func containsArray(t types.Type) bool {
	if _, ok := isArray(t); ok {
		return true
	}
	if isStruct(t) {
		stt := t.Underlying().(*types.Struct)
		for i := 0; i < stt.NumFields(); i++ {
			if containsArray(stt.Field(i).Type()) {
				return true
			}
		}
	}
	return false
}
