package main

import (
	"golang.org/x/tools/go/ssa"
	"context"
	"flag"
	"fmt"
	"os"
	"path/filepath"
	"sort"
	"strings"
)

func usage() {
	fmt.Fprintln(os.Stderr, `rainvc — contract verifier for cenkalti/rain
  rainvc check -prop C03 [-tier quick|thorough] [-repo /repo] [-verif /verif]
  rainvc fn <function id substring> [-keep]     debug: verify one function
  rainvc ledger -update                          rewrite ledger.json from the current tree
  rainvc list                                    list functions under contract`)
	os.Exit(2)
}

func main() {
	if len(os.Args) < 2 {
		usage()
	}
	switch os.Args[1] {
	case "fn":
		cmdFn(os.Args[2:])
	case "check":
		os.Exit(cmdCheck(os.Args[2:]))
	case "ledger":
		os.Exit(cmdLedger(os.Args[2:]))
	case "list":
		cmdList(os.Args[2:])
	case "why":
		cmdWhy(os.Args[2:])
	default:
		usage()
	}
}

func cmdFn(args []string) {
	fs := flag.NewFlagSet("fn", flag.ExitOnError)
	repo := fs.String("repo", "/repo", "")
	keep := fs.Bool("keep", false, "keep SMT files")
	timeout := fs.Int("t", 10, "timeout")
	diag := fs.Bool("diag", false, "for unproved goals: drop quantified hypotheses and print a candidate counter-model")
	fs.Parse(args)
	pat := fs.Arg(0)
	g, err := loadGlobal(*repo)
	if err != nil {
		fmt.Fprintln(os.Stderr, err)
		os.Exit(2)
	}
	g.buildFrames()
	fmt.Printf("loaded in %.1fs, frames %.1fs, %d contracts\n", g.loadS, g.frameS, len(g.cs.Funcs))
	dir, _ := os.MkdirTemp("", "rainvc")
	if !*keep {
		defer os.RemoveAll(dir)
	} else {
		fmt.Println("smt dir:", dir)
	}
	for _, k := range sortedKeys(g.cs.Lemmas) {
		l := g.cs.Lemmas[k]
		if !strings.Contains(k, ".") || !strings.Contains(k, pat) {
			continue
		}
		res := verifyLemma(g, l)
		for _, o := range res.Obls {
			discharge(dir, res.VC, o, *timeout, false)
			fmt.Printf("  %-8s %-60s %s %.2fs %s\n", o.Result, o.ID, o.Solver, o.TimeS, o.Detail)
		}
	}
	for _, id := range sortedKeys(g.cs.Funcs) {
		if !strings.Contains(id, pat) {
			continue
		}
		fc := g.cs.Funcs[id]
		fn := g.fnByID[id]
		if fn == nil {
			fmt.Println("MISSING function for contract", id)
			continue
		}
		res := verifyFunc(g, fn, fc)
		var jobs []func()
		for _, o := range append(append([]*Obligation{}, res.Obls...), res.Covers...) {
			o := o
			jobs = append(jobs, func() { discharge(dir, res.VC, o, *timeout, false) })
		}
		dischargeAll(dir, jobs, 8)
		fmt.Printf("== %s: %d obligations, %d covers\n", res.ID, len(res.Obls), len(res.Covers))
		for _, o := range append(append([]*Obligation{}, res.Obls...), res.Covers...) {
			fmt.Printf("  %-8s %-60s %s %.2fs %s %s\n", o.Result, o.ID, o.Solver, o.TimeS, o.Where, o.Detail)
		}
		if *diag {
			for _, o := range res.Obls {
				if o.Result == "proved" || o.Static {
					continue
				}
				diagnose(dir, res.VC, o)
			}
		}
		for _, n := range res.Notes {
			fmt.Println("  note:", n)
		}
		for _, n := range res.Assumed {
			fmt.Println("  assumed:", n)
		}
	}
}

// diagnose: ground candidate counter-model for an unproved goal (debugging aid
// and the "ground search" of DESIGN §2.9): quantified hypotheses are dropped,
// so a model is only a candidate.
func diagnose(dir string, vc *VC, o *Obligation) {
	q := vc.query(o, false)
	var b strings.Builder
	for _, ln := range strings.Split(q, "\n") {
		if strings.HasPrefix(ln, "(assert") && (strings.Contains(ln, "(forall") || strings.Contains(ln, "(exists")) {
			continue
		}
		b.WriteString(ln + "\n")
	}
	syms := map[string]bool{}
	var expand func(s string, depth int)
	expand = func(s string, depth int) {
		for _, x := range symsOf(s) {
			if syms[x] || len(syms) > 60 {
				continue
			}
			syms[x] = true
			if i, ok := vc.declIdx[x]; ok && depth < 2 {
				expand(vc.decls[i][strings.Index(vc.decls[i], x)+len(x):], depth+1)
			}
		}
	}
	expand(o.goal.S, 0)
	var names []string
	for s := range syms {
		if i, ok := vc.declIdx[s]; ok && strings.Contains(vc.decls[i], "(forall") {
			continue
		}
		names = append(names, s)
	}
	sort.Strings(names)
	b.WriteString("(get-value (" + strings.Join(names, " ") + "))\n")
	file := filepath.Join(dir, sanitize(o.ID)+".diag.smt2")
	os.WriteFile(file, []byte(b.String()), 0o644)
	r := runSolver(context.Background(), solvers[0], file, 10)
	fmt.Printf("  DIAG %s: ground verdict %s\n    goal: %s\n", o.ID, r.verdict, truncate(o.goal.S, 300))
	if i, ok := vc.declIdx[o.goal.S]; ok {
		fmt.Printf("    def: %s\n", truncate(vc.decls[i], 700))
	}
	if r.verdict == "sat" {
		out := r.out
		if i := strings.Index(out, "(("); i >= 0 {
			out = out[i:]
		}
		fmt.Printf("    model: %s\n", truncate(strings.Join(strings.Fields(out), " "), 2500))
		for _, s := range names {
			if i, ok := vc.declIdx[s]; ok && strings.HasPrefix(vc.decls[i], "(define-fun") {
				fmt.Printf("      %s\n", truncate(vc.decls[i], 260))
			}
		}
	}
}

func cmdList(args []string) {
	g, err := loadGlobal("/repo")
	if err != nil {
		fmt.Fprintln(os.Stderr, err)
		os.Exit(2)
	}
	if os.Getenv("RAINVC_DEBUG") != "" {
		for id := range g.fnByID {
			if strings.Contains(id, "$") && strings.Contains(id, os.Getenv("RAINVC_DEBUG")) {
				fmt.Println("literal:", id)
			}
		}
	}
	for _, id := range sortedKeys(g.cs.Funcs) {
		fc := g.cs.Funcs[id]
		_, ok := g.fnByID[id]
		fmt.Printf("%-80s props=%v found=%v\n", shortID(id), fc.Props, ok)
	}
}

// cmdWhy: which functions reachable from <fn> write <key> directly (frame debugging).
func cmdWhy(args []string) {
	if len(args) < 2 {
		fmt.Fprintln(os.Stderr, "usage: rainvc why <function substring> <key substring>")
		os.Exit(2)
	}
	g, err := loadGlobal("/repo")
	if err != nil {
		fmt.Fprintln(os.Stderr, err)
		os.Exit(2)
	}
	g.buildFrames()
	for _, start := range g.allFns {
		if !strings.Contains(start.String(), args[0]) {
			continue
		}
		fmt.Println("from", start.String())
		seen := map[*ssa.Function]*ssa.Function{start: nil}
		queue := []*ssa.Function{start}
		for len(queue) > 0 {
			f := queue[0]
			queue = queue[1:]
			for k := range g.direct[f] {
				if strings.Contains(k, args[1]) {
					path := []string{}
					for x := f; x != nil; x = seen[x] {
						path = append(path, x.String())
					}
					fmt.Println("  ", k, "written by", strings.Join(path, " <- "))
				}
			}
			if node := g.cg.Nodes[f]; node != nil {
				for _, e := range node.Out {
					c := e.Callee.Func
					if c == nil || isPurePkg(fnPkgPath(c)) || isAtomicFn(c) {
						continue
					}
					if _, ok := seen[c]; !ok {
						seen[c] = f
						queue = append(queue, c)
					}
				}
			}
		}
	}
}
