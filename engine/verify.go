package main

import (
	"fmt"
	"go/token"
	"sort"
	"strings"

	"golang.org/x/tools/go/ssa"
)

type FuncResult struct {
	ID       string
	Fn       *ssa.Function
	FC       *FuncContract
	VC       *VC
	Obls     []*Obligation
	Covers   []*Obligation
	Notes    []string
	Assumed  []string
	Inlined  []string
	Called   []string
	Arith    string
	GenS     float64
}

func newExec(g *Global, fn *ssa.Function, fc *FuncContract) *Exec {
	id := ""
	if fn != nil {
		id = shortID(fnID(fn))
	}
	ex := &Exec{g: g, vc: newVC(), initKey: map[string]Term{}, keySort: map[string]Sort{}, root: fn, fc: fc, fnID: id, lemmasUsed: map[string]bool{}, safety: map[string]bool{}, nSafety: map[string]int{}, assumed: map[string]bool{}, inlined: map[string]bool{}, calls: map[string]bool{}, ufunUsed: map[string]bool{}}
	ex.te = newTypeEnv(g)
	if fc != nil {
		for _, s := range fc.Safety {
			ex.safety[s] = true
		}
		ex.props = fc.Props
	}
	return ex
}

// ensuresAt checks every postcondition at one return point of the function
// under contract (per return rather than on the merged exit state: the goals
// stay free of array-valued if-then-else terms).
func (ex *Exec) ensuresAt(fr *Frame, pc Term, st State, results []Term, pos token.Pos) {
	fc, fn := ex.fc, fr.fn
	if fc == nil {
		return
	}
	ex.nReturns++
	if len(fc.Ensures) > 0 {
		// vacuity guard per return point: the hypotheses on this path must not contradict each other
		ex.vc.cover(&Obligation{ID: fmt.Sprintf("%s#cover.return@%d", ex.fnID, ex.nReturns), Func: ex.fnID, Kind: "cover", Props: fc.Props, Where: posOf(fn, pos)}, pc)
	}
	{
		se := ex.newSpecEnv(fr, pc, st, fr.entry)
		ex.bindResults(se, fn, results)
		ex.applyAt(fr, "post", pc, st, se.vars)
	}
	for _, en := range fc.Ensures {
		se := ex.newSpecEnv(fr, pc, st, fr.entry)
		se.entryPar = true
		ex.bindResults(se, fn, results)
		goal, err := se.evalBool(en.E)
		o := &Obligation{ID: fmt.Sprintf("%s#%s@%d", ex.fnID, en.Label, ex.nReturns), Func: ex.fnID, Kind: "ensures", Props: en.Props,
			Where: fmt.Sprintf("%s:%d (return at %s)", strings.TrimPrefix(en.File, "/repo/"), en.Line, posOf(fn, pos))}
		if err != nil {
			o.Detail = "spec error: " + err.Error()
			goal = tFalse
		}
		ex.vc.oblige(o, pc, ex.vc.def("ens", goal))
	}
}

// verifyFunc generates all obligations for one function under contract.
func verifyFunc(g *Global, fn *ssa.Function, fc *FuncContract) *FuncResult {
	ex := newExec(g, fn, fc)
	fr := ex.newFrame(fn, nil)
	ex.rootFrame = fr
	st := State{m: map[string]Term{}}
	for _, p := range fn.Params {
		v := ex.vc.fresh("p_"+p.Name(), ex.te.sortOf(p.Type()))
		ex.assumeType(tTrue, v, p.Type())
		fr.vals[p] = v
		fr.params[p.Name()] = v
	}
	for _, fv := range fn.FreeVars {
		fr.vals[fv] = ex.vc.fresh("fv_"+fv.Name(), SRef)
	}
	st = ex.ghostInit(st)
	fr.entry = st
	// requires
	for _, rq := range fc.Requires {
		se := ex.newSpecEnv(fr, tTrue, st, st)
		se.entryPar = true
		fact, err := se.evalBool(rq.E)
		if err != nil {
			o := &Obligation{ID: fmt.Sprintf("%s#requires.%s", ex.fnID, rq.Label), Func: ex.fnID, Kind: "spec", Props: rq.Props, Detail: "spec error: " + err.Error(), Where: fmt.Sprintf("%s:%d", rq.File, rq.Line)}
			ex.vc.oblige(o, tTrue, tFalse)
			continue
		}
		ex.vc.assume(tTrue, ex.vc.def("req", fact), "requires "+rq.Label)
	}
	for _, gv := range fc.Given {
		se := ex.newSpecEnv(fr, tTrue, st, st)
		se.entryPar = true
		fact, err := se.evalBool(gv.E)
		if err != nil {
			o := &Obligation{ID: fmt.Sprintf("%s#given.%s", ex.fnID, gv.Label), Func: ex.fnID, Kind: "spec", Props: gv.Props, Detail: "spec error: " + err.Error(), Where: fmt.Sprintf("%s:%d", gv.File, gv.Line)}
			ex.vc.oblige(o, tTrue, tFalse)
			continue
		}
		ex.vc.assume(tTrue, ex.vc.def("given", fact), "given "+gv.Label)
		ex.assumed[fmt.Sprintf("%s: representation invariant %s assumed on entry: %s (%s)", shortID(ex.fnID), gv.Label, gv.Src, gv.Why)] = true
	}
	// vacuity: the preconditions together with the type invariants are satisfiable
	ex.vc.cover(&Obligation{ID: ex.fnID + "#cover.requires", Func: ex.fnID, Kind: "cover", Props: fc.Props}, tTrue)
	rpc, rst, results := ex.execFn(fr, tTrue, st)
	if len(fc.Ensures) > 0 {
		ex.vc.cover(&Obligation{ID: ex.fnID + "#cover.return", Func: ex.fnID, Kind: "cover", Props: fc.Props}, rpc)
	}
	_, _ = rst, results
	if ex.nReturns == 0 {
		// no return is reachable (the function always panics or loops): postconditions hold vacuously,
		// which the cover above reports
		for _, en := range fc.Ensures {
			o := &Obligation{ID: fmt.Sprintf("%s#%s", ex.fnID, en.Label), Func: ex.fnID, Kind: "ensures", Props: en.Props, Static: true, Result: "failed", Detail: "no return point reachable: postcondition cannot be anchored"}
			ex.vc.obls = append(ex.vc.obls, o)
		}
	}
	// anchors: every site clause must have matched at least Min sites
	for _, s := range fc.Sites {
		if s.Hits < s.Min {
			o := &Obligation{ID: fmt.Sprintf("%s#site.%s.anchor", ex.fnID, s.C.Label), Func: ex.fnID, Kind: "anchor", Props: s.C.Props, Static: true, Result: "failed",
				Detail: fmt.Sprintf("site clause %s %s matched %d sites, expected at least %d (contract target missing)", s.Kind, s.Target, s.Hits, s.Min)}
			ex.vc.obls = append(ex.vc.obls, o)
		}
	}
	for n, ls := range fc.Loops {
		if n > len(analyzeCFG(fn).loops) {
			o := &Obligation{ID: fmt.Sprintf("%s#loop%d.anchor", ex.fnID, n), Func: ex.fnID, Kind: "anchor", Props: fc.Props, Static: true, Result: "failed",
				Detail: fmt.Sprintf("contract names loop %d but the function has %d loops", n, len(analyzeCFG(fn).loops))}
			_ = ls
			ex.vc.obls = append(ex.vc.obls, o)
		}
	}
	ex.vc.preamble = append([]string{basePreamble}, ex.te.declText()...)
	ex.vc.preamble = append(ex.vc.preamble, ex.ufunDecl...)
	ex.vc.preamble = append(ex.vc.preamble, ex.te.strAxioms()...)
	if len(ex.outside) > 0 {
		// never proved, never a counterexample: the function uses a construct the lowering cannot model soundly
		for _, o := range ex.vc.obls {
			o.Static = true
			o.Result = "outside-subset"
			o.Detail = "function is outside the verified subset: " + strings.Join(ex.outside, "; ")
		}
	}
	res := &FuncResult{ID: ex.fnID, Fn: fn, FC: fc, VC: ex.vc, Obls: ex.vc.obls, Covers: ex.vc.covers, Notes: ex.vc.notes, Arith: "int+wrap"}
	for k := range ex.lemmasUsed {
		res.Assumed = append(res.Assumed, "lemma "+shortID(k)+" (proved by induction under the same property)")
	}
	for k := range ex.assumed {
		res.Assumed = append(res.Assumed, k)
	}
	for k := range ex.inlined {
		res.Inlined = append(res.Inlined, shortID(k))
	}
	for k := range ex.calls {
		res.Called = append(res.Called, shortID(k))
	}
	sort.Strings(res.Assumed)
	sort.Strings(res.Inlined)
	sort.Strings(res.Called)
	return res
}
