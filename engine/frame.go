package main

import (
	"golang.org/x/tools/go/packages"
	"fmt"
	"math/bits"
	"go/types"
	"strings"

	"golang.org/x/tools/go/ssa"
)

// Packages whose functions are trusted not to write state the contracts talk
// about (logging, metrics, formatting). Listed in every evidence file.
var purePkgs = []string{
	"github.com/cenkalti/log", "github.com/cenkalti/rain/v2/internal/logger", "github.com/rcrowley/go-metrics",
	"fmt", "errors", "strconv", "log", "time", "math", "math/bits", "math/rand", "math/rand/v2", "unicode", "unicode/utf8", "strings", "runtime", "runtime/debug", "os/signal", "context", "net/url", "path", "path/filepath", "sync", "reflect", "internal/",
}

func isPurePkg(p string) bool {
	for _, q := range purePkgs {
		if p == q || strings.HasPrefix(p, q+"/") || (strings.HasSuffix(q, "/") && strings.HasPrefix(p, q)) {
			return true
		}
	}
	return false
}

func mapKeys(t types.Type) []string {
	k := typeKey(t.Underlying())
	return []string{"MD|" + k, "MV|" + k, "ML|" + k}
}

// leafKeys lists the heap keys that hold a value of type t stored at an
// arbitrary (non-field) address.
func (g *Global) leafKeys(t types.Type, out map[string]bool) {
	if isStruct(t) {
		st := t.Underlying().(*types.Struct)
		sk := typeKey(t)
		for i := 0; i < st.NumFields(); i++ {
			ft := st.Field(i).Type()
			if scalarType(ft) {
				if g.cellMode[fmt.Sprintf("%s#%d", sk, i)] {
					out[cellKey(ft)] = true
				} else {
					out[fieldKey(sk, i)] = true
				}
				continue
			}
			g.leafKeys(ft, out)
		}
		return
	}
	if a, ok := isArray(t); ok {
		g.leafKeys(a.Elem(), out)
		return
	}
	out[cellKey(t)] = true
}

// reachKeys: keys reachable by type from a value of type t (used for
// reflection-style writers and bodyless functions).
func (g *Global) reachKeys(t types.Type, out map[string]bool, seen map[string]bool, depth int) {
	k := typeKey(t)
	if seen[k] || depth > 6 {
		return
	}
	seen[k] = true
	if _, ok := opaqueScalar(t); ok {
		return
	}
	switch u := t.Underlying().(type) {
	case *types.Pointer:
		g.leafKeys(u.Elem(), out)
		g.reachKeys(u.Elem(), out, seen, depth+1)
	case *types.Slice:
		g.leafKeys(u.Elem(), out)
		g.reachKeys(u.Elem(), out, seen, depth+1)
	case *types.Array:
		g.reachKeys(u.Elem(), out, seen, depth+1)
	case *types.Struct:
		for i := 0; i < u.NumFields(); i++ {
			g.reachKeys(u.Field(i).Type(), out, seen, depth+1)
		}
	case *types.Map:
		for _, mk := range mapKeys(t) {
			out[mk] = true
		}
		g.reachKeys(u.Elem(), out, seen, depth+1)
	}
}

func (g *Global) keysForStore(addr ssa.Value, t types.Type, out map[string]bool) {
	if fa, ok := addr.(*ssa.FieldAddr); ok {
		st := fa.X.Type().Underlying().(*types.Pointer).Elem()
		ft := st.Underlying().(*types.Struct).Field(fa.Field).Type()
		if scalarType(ft) {
			sk := typeKey(st)
			if g.cellMode[fmt.Sprintf("%s#%d", sk, fa.Field)] {
				out[cellKey(ft)] = true
			} else {
				out[fieldKey(sk, fa.Field)] = true
			}
			return
		}
	}
	g.leafKeys(t, out)
}

func addrRoot(v ssa.Value) ssa.Value {
	for {
		switch x := v.(type) {
		case *ssa.FieldAddr:
			v = x.X
		case *ssa.IndexAddr:
			if _, isPtr := x.X.Type().Underlying().(*types.Pointer); isPtr {
				v = x.X
			} else {
				return v
			}
		default:
			return v
		}
	}
}

func (g *Global) directWrites(fn *ssa.Function) map[string]bool {
	out := map[string]bool{}
	// ghost variables the function's own contract updates are part of its frame, so that
	// callers (direct or transitive) lose what they knew about them at the call
	if g.cs != nil {
		if fc := g.cs.Funcs[fnID(fn)]; fc != nil {
			for _, s := range fc.Sites {
				if s.Kind == "ghost-after" {
					out["G|"+s.C.Label] = true
				}
			}
		}
	}
	for _, b := range fn.Blocks {
		for _, in := range b.Instrs {
			g.instrWrites(in, out, true)
		}
	}
	return out
}

// directWritesExt: what the function writes as seen from outside its literal family:
// a store through a captured variable that only the family can reach (captureFamily)
// is invisible to every other function.
func (g *Global) directWritesExt(fn *ssa.Function) map[string]bool {
	if fn.Parent() == nil {
		return g.direct[fn]
	}
	private := false
	for _, fv := range fn.FreeVars {
		if g.captureFamily(fv) != nil {
			private = true
		}
	}
	if !private {
		return g.direct[fn]
	}
	out := map[string]bool{}
	if g.cs != nil {
		if fc := g.cs.Funcs[fnID(fn)]; fc != nil {
			for _, s := range fc.Sites {
				if s.Kind == "ghost-after" {
					out["G|"+s.C.Label] = true
				}
			}
		}
	}
	for _, b := range fn.Blocks {
		for _, in := range b.Instrs {
			if st, ok := in.(*ssa.Store); ok {
				if fv, ok := addrRoot(st.Addr).(*ssa.FreeVar); ok && g.captureFamily(fv) != nil {
					continue
				}
			}
			g.instrWrites(in, out, true)
		}
	}
	return out
}

// instrWrites adds the keys an instruction may write directly (not through
// callees with bodies). skipFresh drops stores rooted at the function's own
// allocations.
func (g *Global) instrWrites(in ssa.Instruction, out map[string]bool, skipFresh bool) {
	switch in := in.(type) {
	case *ssa.Store:
		if skipFresh {
			if _, own := addrRoot(in.Addr).(*ssa.Alloc); own {
				return
			}
		}
		g.keysForStore(in.Addr, in.Val.Type(), out)
		if _, isChan := in.Val.Type().Underlying().(*types.Chan); isChan {
			if fa, ok := in.Addr.(*ssa.FieldAddr); ok {
				st := fa.X.Type().Underlying().(*types.Pointer).Elem()
				out[fmt.Sprintf("G|closed|%s|%d", typeKey(st), fa.Field)] = true
			}
		}
	case *ssa.MapUpdate:
		for _, k := range mapKeys(in.Map.Type()) {
			out[k] = true
		}
	case ssa.CallInstruction:
		if _, isGo := in.(*ssa.Go); isGo {
			return
		}
		c := in.Common()
		if bi, ok := c.Value.(*ssa.Builtin); ok {
			switch bi.Name() {
			case "copy", "append":
				if sl, ok := c.Args[0].Type().Underlying().(*types.Slice); ok {
					g.leafKeys(sl.Elem(), out)
				}
			case "delete", "clear":
				if _, ok := c.Args[0].Type().Underlying().(*types.Map); ok {
					for _, k := range mapKeys(c.Args[0].Type()) {
						out[k] = true
					}
				} else if sl, ok := c.Args[0].Type().Underlying().(*types.Slice); ok {
					g.leafKeys(sl.Elem(), out)
				}
			case "close":
				k := closedKeyOf(c.Args[0])
				out[k] = true
				if k == "G|closed" {
					out["G|closed*"] = true // may be the channel held in any field
				}
			}
			return
		}
		callee := c.StaticCallee()
		if callee != nil && isAtomicFn(callee) {
			if fnPkgPath(callee) == "sync/atomic" && len(c.Args) > 0 {
				name := callee.Name()
				if strings.HasPrefix(name, "Load") || name == "Load" {
					return
				}
				if pt, ok := c.Args[0].Type().Underlying().(*types.Pointer); ok {
					g.keysForStore(c.Args[0], pt.Elem(), out)
				}
			}
			return
		}
		if callee != nil && callee.Blocks == nil && !isPurePkg(fnPkgPath(callee)) {
			for _, a := range c.Args {
				g.reachKeys(a.Type(), out, map[string]bool{}, 0)
			}
		}
		// reflection rule: pointers boxed into interfaces handed to non-rain code
		if callee == nil || !isRainFn(callee) {
			if callee != nil && isPurePkg(fnPkgPath(callee)) {
				return
			}
			if c.IsInvoke() && c.Method.Pkg() != nil && isPurePkg(c.Method.Pkg().Path()) {
				return
			}
			if callee != nil && callee.Blocks != nil && !g.pkgReflective(fnPkgPath(callee)) {
				// library code with bodies that cannot reach reflect/unsafe (other than through
				// the trusted-pure packages): its own stores, already in its frame, are all it does
				return
			}
			for _, a := range c.Args {
				if mi, ok := a.(*ssa.MakeInterface); ok {
					switch mi.X.Type().Underlying().(type) {
					case *types.Pointer, *types.Slice, *types.Map:
						g.reachKeys(mi.X.Type(), out, map[string]bool{}, 0)
					}
				}
			}
		}
	}
}

func (g *Global) computeFrames() {
	g.direct = map[*ssa.Function]map[string]bool{}
	g.frames = map[*ssa.Function]map[string]bool{}
	keyID := map[string]int{}
	var keyName []string
	bits := map[*ssa.Function][]uint64{}
	for _, fn := range g.allFns {
		if isPurePkg(fnPkgPath(fn)) {
			g.direct[fn] = map[string]bool{}
		} else {
			g.direct[fn] = g.directWrites(fn)
		}
		for k := range g.direct[fn] {
			if _, ok := keyID[k]; !ok {
				keyID[k] = len(keyName)
				keyName = append(keyName, k)
			}
		}
	}
	words := (len(keyName) + 63) / 64
	bitsExt := map[*ssa.Function][]uint64{}
	for _, fn := range g.allFns {
		b := make([]uint64, words)
		for k := range g.direct[fn] {
			id := keyID[k]
			b[id/64] |= 1 << uint(id%64)
		}
		bits[fn] = b
		be := b
		if fn.Parent() != nil && !isPurePkg(fnPkgPath(fn)) {
			if de := g.directWritesExt(fn); len(de) != len(g.direct[fn]) {
				be = make([]uint64, words)
				for k := range de {
					id := keyID[k]
					be[id/64] |= 1 << uint(id%64)
				}
			}
		}
		if &be[0] == &b[0] {
			be = append([]uint64(nil), b...)
		}
		bitsExt[fn] = be
	}
	// callers map over CHA edges
	callers := map[*ssa.Function]map[*ssa.Function]bool{}
	addEdge := func(callee, caller *ssa.Function) {
		m := callers[callee]
		if m == nil {
			m = map[*ssa.Function]bool{}
			callers[callee] = m
		}
		m[caller] = true
	}
	for fn, node := range g.cg.Nodes {
		if fn == nil || isPurePkg(fnPkgPath(fn)) {
			continue
		}
		for _, e := range node.Out {
			callee := e.Callee.Func
			if callee == nil || e.Site == nil {
				continue
			}
			if _, isGo := e.Site.(*ssa.Go); isGo {
				continue
			}
			if isPurePkg(fnPkgPath(callee)) {
				// callbacks handed to trusted-pure library code still run
				for _, a := range e.Site.Common().Args {
					if cb := closureFn(a); cb != nil {
						addEdge(cb, fn)
					}
				}
				continue
			}
			if isAtomicFn(callee) {
				continue
			}
			c := e.Site.Common()
			if c.IsInvoke() && c.Method.Pkg() != nil && isPurePkg(c.Method.Pkg().Path()) {
				continue
			}
			if !c.IsInvoke() && c.StaticCallee() == nil {
				// call through a function value: prefer the statically known literal
				if sc := staticClosure(c.Value); sc != nil {
					if sc == callee {
						addEdge(callee, fn)
					}
					continue
				}
			}
			addEdge(callee, fn)
		}
	}
	fix := func(bits map[*ssa.Function][]uint64) {
		work := make([]*ssa.Function, 0, len(g.allFns))
		inWork := map[*ssa.Function]bool{}
		for _, fn := range g.allFns {
			work = append(work, fn)
			inWork[fn] = true
		}
		for len(work) > 0 {
			fn := work[len(work)-1]
			work = work[:len(work)-1]
			inWork[fn] = false
			fb := bits[fn]
			if fb == nil {
				continue
			}
			for caller := range callers[fn] {
				cb := bits[caller]
				if cb == nil {
					cb = make([]uint64, words)
					bits[caller] = cb
				}
				changed := false
				for i, w := range fb {
					if cb[i]|w != cb[i] {
						cb[i] |= w
						changed = true
					}
				}
				if changed && !inWork[caller] {
					work = append(work, caller)
					inWork[caller] = true
				}
			}
		}
	}
	fix(bits)
	fix(bitsExt)
	g.frameBits = bits
	g.frameBitsExt = bitsExt
	g.keyName = keyName
}

// topFunc: the declared function a (possibly nested) literal belongs to.
func topFunc(fn *ssa.Function) *ssa.Function {
	for fn.Parent() != nil {
		fn = fn.Parent()
	}
	return fn
}

// frameFor: the callee's write set as the caller sees it: complete when the callee is a
// literal of the caller's own family, otherwise without the writes to variables that are
// private to the callee's literal family.
func (g *Global) frameFor(caller, callee *ssa.Function) map[string]bool {
	if caller != nil && callee.Parent() != nil && topFunc(caller) == topFunc(callee) {
		return g.frameOf(callee)
	}
	if g.framesExt == nil {
		g.framesExt = map[*ssa.Function]map[string]bool{}
	}
	if f, ok := g.framesExt[callee]; ok {
		return f
	}
	f := map[string]bool{}
	for i, w := range g.frameBitsExt[callee] {
		for w != 0 {
			b := bits.TrailingZeros64(w)
			f[g.keyName[i*64+b]] = true
			w &^= 1 << uint(b)
		}
	}
	g.framesExt[callee] = f
	return f
}

// frameOf materialises the write set of fn.
func (g *Global) frameOf(fn *ssa.Function) map[string]bool {
	if f, ok := g.frames[fn]; ok {
		return f
	}
	f := map[string]bool{}
	for i, w := range g.frameBits[fn] {
		for w != 0 {
			b := bits.TrailingZeros64(w)
			f[g.keyName[i*64+b]] = true
			w &^= 1 << uint(b)
		}
	}
	g.frames[fn] = f
	return f
}

func closureFn(v ssa.Value) *ssa.Function {
	switch x := v.(type) {
	case *ssa.MakeClosure:
		return x.Fn.(*ssa.Function)
	case *ssa.Function:
		return x
	}
	return nil
}

// calleesAt returns the possible callees of a call site per CHA.
func (g *Global) calleesAt(site ssa.CallInstruction) []*ssa.Function {
	fn := site.Parent()
	node := g.cg.Nodes[fn]
	if node == nil {
		return nil
	}
	var out []*ssa.Function
	for _, e := range node.Out {
		if e.Site == site && e.Callee.Func != nil {
			out = append(out, e.Callee.Func)
		}
	}
	return out
}

// siteFrame: keys a call site may write, given CHA.
func (g *Global) siteFrame(site ssa.CallInstruction) map[string]bool {
	out := map[string]bool{}
	g.instrWrites(site, out, false)
	c := site.Common()
	if callee := c.StaticCallee(); callee != nil {
		if isPurePkg(fnPkgPath(callee)) {
			for _, a := range c.Args {
				if cb := closureFn(a); cb != nil {
					for k := range g.frameFor(site.Parent(), cb) {
						out[k] = true
					}
				}
			}
			return out
		}
		if isAtomicFn(callee) {
			return out
		}
		for k := range g.frameFor(site.Parent(), callee) {
			out[k] = true
		}
		return out
	}
	if c.IsInvoke() && c.Method.Pkg() != nil && isPurePkg(c.Method.Pkg().Path()) {
		return out
	}
	if !c.IsInvoke() {
		if sc := staticClosure(c.Value); sc != nil {
			for k := range g.frameFor(site.Parent(), sc) {
				out[k] = true
			}
			return out
		}
	}
	for _, callee := range g.calleesAt(site) {
		if isAtomicFn(callee) || isPurePkg(fnPkgPath(callee)) {
			continue
		}
		for k := range g.frameFor(site.Parent(), callee) {
			out[k] = true
		}
	}
	return out
}

// pkgReflective: the package, or a package it imports outside the trusted-pure list,
// imports reflect (the way a callee writes through a boxed pointer it was handed).
func (g *Global) pkgReflective(path string) bool {
	if g.reflective == nil {
		g.reflective = map[string]bool{}
		g.pkgByPath = map[string]*packages.Package{}
		packages.Visit(g.pkgs, nil, func(p *packages.Package) { g.pkgByPath[p.PkgPath] = p })
	}
	if v, ok := g.reflective[path]; ok {
		return v
	}
	if path == "reflect" {
		g.reflective[path] = true
		return true
	}
	if isPurePkg(path) {
		g.reflective[path] = false
		return false
	}
	g.reflective[path] = false // cycle guard
	p := g.pkgByPath[path]
	if p == nil {
		g.reflective[path] = true
		return true
	}
	r := false
	for ip := range p.Imports {
		if g.pkgReflective(ip) {
			r = true
			break
		}
	}
	g.reflective[path] = r
	return r
}
