package main

import (
	"context"
	"encoding/json"
	"fmt"
	"go/types"
	"os"
	"os/exec"
	"path/filepath"
	"regexp"
	"sort"
	"strings"
	"time"
)

type replayFile struct {
	Property    string            `json:"property"`
	Obligation  string            `json:"obligation"`
	Family      string            `json:"family"`
	Kind        string            `json:"kind"`
	Function    string            `json:"function"`
	Where       string            `json:"where"`
	Verdict     string            `json:"verdict"`
	Solver      string            `json:"solver"`
	Detail      string            `json:"detail,omitempty"`
	SolverOut   string            `json:"solver_output,omitempty"`
	Inputs      map[string]string `json:"inputs,omitempty"`
	Replayed    bool              `json:"replayed_on_real_code"`
	ReplayKind  string            `json:"replay_kind,omitempty"`
	ReplayCmd   string            `json:"replay_cmd,omitempty"`
	ReplayOut   string            `json:"replay_output,omitempty"`
	ReplayTest  string            `json:"replay_test_source,omitempty"`
	Explanation string            `json:"explanation"`
}

var modelRe = regexp.MustCompile(`\(define-fun (p_[A-Za-z0-9_]+)!\d+ \(\) (Int|Bool)\s+(\(- \d+\)|\d+|true|false)\)`)

func parseModelInputs(model string) map[string]string {
	out := map[string]string{}
	for _, m := range modelRe.FindAllStringSubmatch(model, -1) {
		v := m[3]
		if strings.HasPrefix(v, "(- ") {
			v = "-" + strings.TrimSuffix(strings.TrimPrefix(v, "(- "), ")")
		}
		out[strings.TrimPrefix(m[1], "p_")] = v
	}
	return out
}

func (cr *checkRun) writeReplay(o *Obligation) string {
	dir := filepath.Join(cr.verifDir, "replays", cr.prop)
	os.MkdirAll(dir, 0o755)
	path := filepath.Join(dir, sanitize(o.ID)+".json")
	rf := replayFile{Property: cr.prop, Obligation: o.ID, Family: family(o.ID), Kind: o.Kind, Function: o.Func, Where: o.Where, Verdict: o.Result, Solver: o.Solver, Detail: o.Detail, SolverOut: truncate(o.Output, 6000)}
	if o.Model != "" {
		rf.Inputs = parseModelInputs(o.Model)
	}
	// 1. adapter: a hand-written in-package test that exercises the clause on the real code
	adapter := filepath.Join(cr.verifDir, "replay", "adapters", sanitize(family(o.ID))+"_test.go")
	if _, err := os.Stat(adapter); err == nil {
		cr.runAdapter(o, &rf, adapter)
	} else if o.Model != "" && o.Kind == "ensures" {
		cr.scalarReplay(o, &rf)
	}
	o.replayed = rf.Replayed
	switch {
	case rf.Replayed:
		rf.Explanation = "the obligation failed and the failure was reproduced by running the real code"
	case o.Static:
		rf.Explanation = "decided by a whole-program SSA scan; there is no input to replay: " + o.Detail
	default:
		rf.Explanation = "the verifier could not discharge this obligation on the current tree (it is recorded as discharged on the pinned tree); no failing input was reproduced on the real code"
	}
	data, _ := json.MarshalIndent(rf, "", " ")
	os.WriteFile(path, append(data, '\n'), 0o644)
	return path
}

func pkgDirOf(o *Obligation) (string, string) {
	// o.Func is "<pkg rel path>.<name>"
	f := o.Func
	i := strings.Index(f, ".")
	if i < 0 {
		return "", ""
	}
	// pkg path may contain dots only in the func part; package dirs here have none
	return f[:i], f[i+1:]
}

func (cr *checkRun) goTestOverlay(pkgRel, testSrc, run string) (string, string, error) {
	tmp, err := os.MkdirTemp("", "rainvc-replay")
	if err != nil {
		return "", "", err
	}
	defer os.RemoveAll(tmp)
	src := filepath.Join(tmp, "zz_rainvc_replay_test.go")
	os.WriteFile(src, []byte(testSrc), 0o644)
	ov := map[string]map[string]string{"Replace": {filepath.Join(cr.g.repo, pkgRel, "zz_rainvc_replay_test.go"): src}}
	ovData, _ := json.Marshal(ov)
	ovPath := filepath.Join(tmp, "ov.json")
	os.WriteFile(ovPath, ovData, 0o644)
	ctx, cancel := context.WithTimeout(context.Background(), 180*time.Second)
	defer cancel()
	args := []string{"test", "-overlay", ovPath, "-vet=off", "-count=1", "-timeout", "60s", "-run", run, "-v", "./" + pkgRel + "/"}
	cmd := exec.CommandContext(ctx, "go", args...)
	cmd.Dir = cr.g.repo
	env := []string{}
	for _, e := range os.Environ() {
		if strings.HasPrefix(e, "GOFLAGS=") || strings.HasPrefix(e, "GOTOOLCHAIN=") || strings.HasPrefix(e, "GOPROXY=") {
			continue
		}
		env = append(env, e)
	}
	cmd.Env = append(env, "GOPROXY=off", "GOFLAGS=-mod=mod")
	out, err := cmd.CombinedOutput()
	return "go " + strings.Join(args, " "), string(out), err
}

// runAdapter: the adapter test FAILS when the real code violates the clause.
func (cr *checkRun) runAdapter(o *Obligation, rf *replayFile, adapter string) {
	src, err := os.ReadFile(adapter)
	if err != nil {
		return
	}
	pkgRel := ""
	for _, ln := range strings.Split(string(src), "\n") {
		if strings.HasPrefix(ln, "// rainvc:pkg ") {
			pkgRel = strings.TrimSpace(strings.TrimPrefix(ln, "// rainvc:pkg "))
		}
	}
	if pkgRel == "" {
		pkgRel, _ = pkgDirOf(o)
	}
	cmdline, out, err := cr.goTestOverlay(pkgRel, string(src), "TestRainvcReplay")
	rf.ReplayKind = "adapter " + strings.TrimPrefix(adapter, cr.verifDir+"/")
	rf.ReplayCmd = cmdline
	rf.ReplayOut = truncate(out, 6000)
	rf.ReplayTest = strings.TrimPrefix(adapter, cr.verifDir+"/")
	if err != nil && strings.Contains(out, "--- FAIL") {
		rf.Replayed = true
	}
}

// scalarReplay: functions whose parameters and results are all integers or
// booleans are called with the model's inputs; the violation is confirmed
// when the real result equals the result the model assigns.
func (cr *checkRun) scalarReplay(o *Obligation, rf *replayFile) {
	pkgRel, _ := pkgDirOf(o)
	var fn = cr.g.fnByID[modPrefix+o.Func]
	if fn == nil || fn.Signature.Recv() != nil || len(rf.Inputs) == 0 {
		return
	}
	var args []string
	for _, p := range fn.Params {
		b, ok := p.Type().Underlying().(*types.Basic)
		if !ok || b.Info()&(types.IsInteger|types.IsBoolean) == 0 {
			return
		}
		v, ok := rf.Inputs[p.Name()]
		if !ok {
			v = "0"
			if b.Info()&types.IsBoolean != 0 {
				v = "false"
			}
		}
		if b.Info()&types.IsBoolean != 0 {
			args = append(args, v)
		} else {
			args = append(args, fmt.Sprintf("%s(%s)", types.TypeString(p.Type(), func(*types.Package) string { return "" }), v))
		}
	}
	rs := fn.Signature.Results()
	if rs.Len() != 1 {
		return
	}
	want, ok := rf.Inputs["__result"]
	if !ok {
		// ask the solver for the result value under the model
		want = cr.modelValueOfResult(o)
	}
	if want == "" {
		return
	}
	src := fmt.Sprintf("package %s\n\nimport \"testing\"\n\n// generated by rainvc from the solver model of %s\nfunc TestRainvcReplay(t *testing.T) {\n\tgot := %s(%s)\n\tt.Logf(\"real code returned %%v; the model says %%v violates the clause\", got, %q)\n\tif fmtv(got) == %q {\n\t\tt.Fatalf(\"violation reproduced: %s(%s) = %%v\", got)\n\t}\n}\n\nfunc fmtv(v interface{}) string { return sprint(v) }\n",
		fn.Pkg.Pkg.Name(), o.ID, fn.Name(), strings.Join(args, ", "), want, want, fn.Name(), strings.Join(args, ", "))
	src = strings.Replace(src, "import \"testing\"", "import (\n\t\"fmt\"\n\t\"testing\"\n)\n\nfunc sprint(v interface{}) string { return fmt.Sprint(v) }", 1)
	cmdline, out, err := cr.goTestOverlay(pkgRel, src, "TestRainvcReplay")
	rf.ReplayKind = "scalar model replay"
	rf.ReplayCmd = cmdline
	rf.ReplayOut = truncate(out, 4000)
	rf.ReplayTest = src
	if err != nil && strings.Contains(out, "violation reproduced") {
		rf.Replayed = true
	}
}

var getValRe = regexp.MustCompile(`\(\(res![0-9]+ (\(- \d+\)|\d+|true|false)\)\)`)

// modelValueOfResult re-runs the failing query with a get-value for the result term.
func (cr *checkRun) modelValueOfResult(o *Obligation) string {
	vc := cr.oblVC[o]
	if vc == nil {
		return ""
	}
	// the result term is the last res!N definition (or the goal mentions it)
	resName := ""
	for _, d := range vc.decls {
		if strings.HasPrefix(d, "(define-fun res!") {
			resName = strings.Fields(d)[1]
		}
	}
	if resName == "" {
		return ""
	}
	q := vc.query(o, false) + "(get-value (" + resName + "))\n"
	file := filepath.Join(cr.dir, sanitize(o.ID)+".getval.smt2")
	os.WriteFile(file, []byte(q), 0o644)
	r := runSolver(context.Background(), solvers[0], file, 10)
	m := regexp.MustCompile(`\(\(`+regexp.QuoteMeta(resName)+` (\(- \d+\)|\d+|true|false)\)\)`).FindStringSubmatch(r.out)
	if m == nil {
		return ""
	}
	v := m[1]
	if strings.HasPrefix(v, "(- ") {
		v = "-" + strings.TrimSuffix(strings.TrimPrefix(v, "(- "), ")")
	}
	return v
}

func (cr *checkRun) writeEvidence(seed, nObl, discharged, nViol, nKF int, unledgered []string, solverTime, wall float64, kfLines []string) {
	type oblRec struct {
		ID     string  `json:"id"`
		Func   string  `json:"function"`
		Kind   string  `json:"kind"`
		Result string  `json:"result"`
		Solver string  `json:"back_end"`
		TimeS  float64 `json:"time_s"`
		Where  string  `json:"where,omitempty"`
		Detail string  `json:"detail,omitempty"`
	}
	var recs []oblRec
	bySolver := map[string]int{}
	for _, o := range cr.obls {
		s := o.Solver
		if o.Static && s == "" {
			s = "ssa-scan"
		}
		recs = append(recs, oblRec{o.ID, o.Func, o.Kind, o.Result, s, round3(o.TimeS), o.Where, o.Detail})
		if o.Result == "proved" {
			bySolver[s]++
		}
	}
	var funcs []map[string]interface{}
	trusted := map[string]bool{
		"go/packages + go/types + go/ssa (x/tools v0.50.0, NaiveForm) represent the code the compiler compiles": true,
		"rainvc lowering, VC generation and frame inference (type-based aliasing, CHA call graph, no unsafe/reflection beyond listed models)": true,
		"SMT solvers z3 5.1.0 (z3-new), z3 4.8.12, cvc5 1.0.x": true,
		"trusted-pure packages (not assumed to write rain state): " + strings.Join(purePkgs, " "): true,
		"single-owner assumption: goroutines spawned by a function under contract do not write the state it reasons about; sync and atomic operations have sequential semantics": true,
	}
	for _, tf := range cr.trustedFns {
		trusted["trusted contract (body not verified) of "+tf] = true
	}
	abstractions := map[string][]string{}
	var samples []map[string]string
	for _, r := range cr.results {
		loops := len(analyzeCFG(r.Fn).loops)
		var reqs []string
		if r.FC != nil {
			for _, rq := range r.FC.Requires {
				reqs = append(reqs, rq.Label+": "+rq.Src)
			}
		}
		if len(reqs) > 0 {
			trusted["preconditions of "+r.ID+" are assumed on entry; they are discharged only at call sites inside functions under contract (listed as #pre obligations)"] = true
		}
		funcs = append(funcs, map[string]interface{}{"function": r.ID, "arith": r.Arith, "loops": loops, "inlined": r.Inlined, "callee_contracts_used": r.Called, "file": posOf(r.Fn, r.Fn.Pos()), "requires_assumed_on_entry": reqs})
		for _, a := range r.Assumed {
			trusted[a] = true
		}
		if len(r.Notes) > 0 {
			abstractions[r.ID] = r.Notes
		}
	}
	for _, o := range cr.obls {
		if len(samples) >= 3 {
			break
		}
		if o.Static || o.SMT == "" {
			continue
		}
		vc := cr.oblVC[o]
		if vc == nil {
			continue
		}
		samples = append(samples, map[string]string{"obligation": o.ID, "kind": o.Kind, "path_condition": truncate(o.pc.S, 300), "goal": truncate(o.goal.S, 1500), "result": o.Result, "smt_query_bytes": fmt.Sprint(len(vc.query(o, false)))})
	}
	if len(samples) == 0 {
		for _, o := range cr.obls {
			if len(samples) >= 3 {
				break
			}
			samples = append(samples, map[string]string{"obligation": o.ID, "kind": o.Kind, "result": o.Result, "detail": o.Detail})
		}
	}
	var tb []string
	for k := range trusted {
		tb = append(tb, k)
	}
	sort.Strings(tb)
	coversSat := 0
	for _, o := range cr.covers {
		if o.Result == "proved" {
			coversSat++
		}
	}
	sort.Strings(unledgered)
	var contractFiles []string
	for _, f := range cr.g.cs.Files {
		contractFiles = append(contractFiles, strings.TrimPrefix(f, "/repo/"))
	}
	cov := map[string]interface{}{
		"obligations":              nObl,
		"discharged":               discharged,
		"known_findings":           nKF,
		"known_finding_lines":      kfLines,
		"checker_cmd":              fmt.Sprintf("/verif/bin/rainvc check -prop %s -tier %s  (VCs generated from go/ssa of /repo's working tree with -tags verif; discharged by z3-new/z3/cvc5)", cr.prop, cr.tier),
		"trusted_base":             tb,
		"functions_under_contract": funcs,
		"obligation_list":          recs,
		"discharged_by_back_end":   bySolver,
		"solver_time_s":            round3(solverTime),
		"vacuity":                  map[string]int{"covers": len(cr.covers), "covers_satisfiable": coversSat},
		"unledgered":               unledgered,
		"abstractions":             abstractions,
		"samples":                  samples,
		"contract_files":           contractFiles,
		"program":                  map[string]interface{}{"functions_loaded": len(cr.g.allFns), "load_s": round3(cr.g.loadS), "frames_s": round3(cr.g.frameS)},
		"not_covered":              notCovered[cr.prop],
		"integers":                 "SMT Int with the exact range of each Go type assumed for inputs and explicit two's-complement wrap-around on + - * conversions; spec arithmetic is mathematical",
		"termination":              "proved only where a loop carries a decreases clause; otherwise partial correctness",
	}
	if len(cr.bounded) > 0 {
		cov["bounded_standins"] = cr.bounded
		cov["bounded_note"] = "functions outside the generator's reach, run on the real code over the stated finite input space; labelled bounded, not part of obligations/discharged"
	}
	ev := map[string]interface{}{
		"property_id": cr.prop,
		"tier":        cr.tier,
		"seed":        seed,
		"level":       "proof",
		"coverage":    cov,
		"assumptions": tb,
		"wall_s":      round3(wall),
		"violations":  nViol,
	}
	os.MkdirAll(filepath.Join(cr.verifDir, "evidence"), 0o755)
	data, _ := json.MarshalIndent(ev, "", " ")
	os.WriteFile(filepath.Join(cr.verifDir, "evidence", cr.prop+".json"), append(data, '\n'), 0o644)
}

func round3(f float64) float64 { return float64(int(f*1000+0.5)) / 1000 }

// notCovered: the residual column of DESIGN §0, reported verbatim in evidence.
var notCovered = map[string]string{}
