package main

import (
	"fmt"
	"os"
	"path/filepath"
	"regexp"
	"sort"
	"strconv"
	"strings"
)

const modPrefix = "github.com/cenkalti/rain/v2/"

type Clause struct {
	Why   string
	Label string
	Props []string
	Src   string
	E     SExpr
	File  string
	Line  int
}

type LoopSpec struct {
	Invs      []*Clause
	Decreases []*Clause
}

type SiteSpec struct {
	Kind   string // call, store, send, make, recv
	Target string
	C      *Clause
	Hits   int
	Min    int // minimum number of sites expected (anchor guard)
	Why    string
	Seen   int
}

type FuncContract struct {
	Pkg      string
	Name     string
	ID       string
	Requires []*Clause
	Given    []*Clause // representation invariants assumed on entry, not demanded of callers (Why in Clause.Why)
	Ensures  []*Clause
	Loops    map[int]*LoopSpec
	Sites    []*SiteSpec
	Safety   []string
	Props    []string
	Inline   bool
	Trusted  bool // contract assumed, body not verified (reason recorded)
	TrustWhy string
	Cover    bool
	Pure     bool
	NoAuto   bool
	// SitesOnly: only the site clauses of this function are claimed; the preconditions of the
	// contracted functions it calls are not discharged here (they are history invariants of a
	// dispatch loop) and are listed as assumptions instead.
	SitesOnly    bool
	SitesOnlyWhy string
	Models   map[string]bool // opt-in library models (e.g. "bytes.Buffer")
	CallsArg int // 1+index of the function argument this function is trusted to call once (0 = none)
	MayCallArg int // 1+index of a callback invoked at most once
	Preserve []string // keys the function is declared not to write (checked against frame)
	File     string
	Line     int
	Ghosts   []*Clause
	Applies  []*Apply
}

type Pred struct {
	Name   string
	Params []string
	Body   SExpr
	Src    string
	Pkg    string
	Rec    bool // recursive specification function (emitted as an uninterpreted function with an unfolding axiom)
	Res    Sort
}

type Whitelist struct {
	Kind    string // callers, writers
	Target  string
	Allowed []string
	Label   string
	Props   []string
	Pkg     string
	File    string
	Line    int
	ValueIs string // optional value filter for writers ("true")
	RainOnly bool
}

type DynSpec struct {
	Method    string // Iface.Method (package-relative) or full
	Pkg       string
	Preserves []string // Type.field list or "*"
	Why       string
	Pure      bool
}

type ChanSpec struct {
	Pkg    string
	Target string // Type.field
	C      *Clause
}

type Contracts struct {
	Funcs  map[string]*FuncContract // by ID
	Preds  map[string]*Pred         // by pkg-qualified and bare name
	WLs    []*Whitelist
	Dyn    []*DynSpec
	Chans  []*ChanSpec
	Files  []string
	Errors []string
	UFuns  map[string]*UFun
	Lemmas map[string]*Lemma
}

type UFun struct {
	Name string
	Args []Sort
	Res  Sort
}

var clauseRe = regexp.MustCompile(`^([A-Za-z0-9_.]+):\s*(.*)$`)

var keywords = map[string]bool{"func": true, "props": true, "safety": true, "requires": true, "ensures": true, "loop": true, "site": true, "inline": true, "trusted": true, "pred": true, "callers": true, "writers": true, "dyncall": true, "chan": true, "cover": true, "pure": true, "ufun": true, "preserves": true, "noauto": true, "package": true, "layout": true, "callsarg": true, "specfn": true, "lemma": true, "apply": true, "assume": true, "raincallers": true, "ghostset": true, "maycallarg": true, "model": true, "given": true, "sitesonly": true, "owned": true, "intx": true}

func loadContracts(root string) (*Contracts, error) {
	cs := &Contracts{Funcs: map[string]*FuncContract{}, Preds: map[string]*Pred{}, UFuns: map[string]*UFun{}, Lemmas: map[string]*Lemma{}}
	var files []string
	filepath.Walk(root, func(p string, info os.FileInfo, err error) error {
		if err == nil && !info.IsDir() && filepath.Base(p) == "zz_contracts_verif.go" {
			files = append(files, p)
		}
		return nil
	})
	sort.Strings(files)
	for _, f := range files {
		rel, _ := filepath.Rel(root, filepath.Dir(f))
		pkg := modPrefix + rel
		if rel == "." {
			pkg = strings.TrimSuffix(modPrefix, "/")
		}
		if err := cs.parseFile(f, pkg); err != nil {
			return nil, err
		}
		cs.Files = append(cs.Files, f)
	}
	return cs, nil
}

type rawDirective struct {
	text string
	line int
}

func (cs *Contracts) parseFile(path, pkg string) error {
	data, err := os.ReadFile(path)
	if err != nil {
		return err
	}
	var ds []rawDirective
	for i, ln := range strings.Split(string(data), "\n") {
		t := strings.TrimSpace(ln)
		if !strings.HasPrefix(t, "//@") {
			continue
		}
		body := strings.TrimSpace(strings.TrimPrefix(t, "//@"))
		if body == "" {
			continue
		}
		first := strings.Fields(body)[0]
		if keywords[first] || len(ds) == 0 {
			ds = append(ds, rawDirective{body, i + 1})
		} else {
			ds[len(ds)-1].text += " " + body
		}
	}
	var cur *FuncContract
	var props []string
	mkClause := func(rest string, line int) (*Clause, error) {
		m := clauseRe.FindStringSubmatch(rest)
		if m == nil {
			return nil, fmt.Errorf("%s:%d: clause needs 'label: expr'", path, line)
		}
		e, err := parseSpec(m[2])
		if err != nil {
			return nil, fmt.Errorf("%s:%d: %v", path, line, err)
		}
		return &Clause{Label: m[1], Props: props, Src: m[2], E: e, File: path, Line: line}, nil
	}
	for _, d := range ds {
		fs := strings.Fields(d.text)
		kw := fs[0]
		rest := strings.TrimSpace(strings.TrimPrefix(d.text, kw))
		switch kw {
		case "package":
			cur = nil
			props = nil
		case "func":
			cur = &FuncContract{Pkg: pkg, Name: rest, ID: pkg + "." + rest, Loops: map[int]*LoopSpec{}, File: path, Line: d.line}
			if _, dup := cs.Funcs[cur.ID]; dup {
				return fmt.Errorf("%s:%d: duplicate contract for %s", path, d.line, cur.ID)
			}
			cs.Funcs[cur.ID] = cur
			props = nil
		case "props":
			props = fs[1:]
			if cur != nil {
				for _, p := range props {
					if !contains(cur.Props, p) {
						cur.Props = append(cur.Props, p)
					}
				}
			}
		case "safety":
			if cur == nil {
				return fmt.Errorf("%s:%d: safety outside func", path, d.line)
			}
			cur.Safety = append(cur.Safety, fs[1:]...)
		case "inline":
			cur.Inline = true
		case "model":
			if cur == nil {
				return fmt.Errorf("%s:%d: model outside func", path, d.line)
			}
			if cur.Models == nil {
				cur.Models = map[string]bool{}
			}
			cur.Models[strings.Join(fs[1:], " ")] = true
		case "noauto":
			cur.NoAuto = true
		case "sitesonly":
			cur.SitesOnly = true
			cur.SitesOnlyWhy = strings.TrimSpace(strings.TrimPrefix(rest, "because"))
		case "callsarg":
			// trusted: the function behaves as one call of its n-th (function-typed) argument,
			// returning that call's results
			n, err := strconv.Atoi(fs[1])
			if err != nil {
				return fmt.Errorf("%s:%d: callsarg index: %v", path, d.line, err)
			}
			cur.CallsArg = n + 1
			cur.TrustWhy = strings.TrimSpace(strings.TrimPrefix(rest, fs[1]))
		case "maycallarg":
			// trusted: besides its own effects the function calls its n-th (function-typed)
			// argument at most once, with arbitrary arguments, and does not retain it
			n, err := strconv.Atoi(fs[1])
			if err != nil {
				return fmt.Errorf("%s:%d: maycallarg index: %v", path, d.line, err)
			}
			cur.MayCallArg = n + 1
			cur.TrustWhy = strings.TrimSpace(strings.TrimPrefix(rest, fs[1]))
		case "pure":
			cur.Pure = true
		case "cover":
			cur.Cover = true
		case "trusted":
			cur.Trusted = true
			cur.TrustWhy = rest
		case "preserves":
			cur.Preserve = append(cur.Preserve, splitList(rest)...)
		case "given":
			// given label: expr because <why>: an invariant of the data structure the function
			// works on, established elsewhere (constructor + writer whitelist); assumed on entry and
			// reported as an assumption, never demanded at call sites
			if cur == nil {
				return fmt.Errorf("%s:%d: given outside func", path, d.line)
			}
			i := strings.LastIndex(rest, " because ")
			if i < 0 {
				return fmt.Errorf("%s:%d: given needs 'because <reason>'", path, d.line)
			}
			c, err := mkClause(rest[:i], d.line)
			if err != nil {
				return err
			}
			c.Why = strings.TrimSpace(rest[i+len(" because "):])
			cur.Given = append(cur.Given, c)
		case "requires", "ensures":
			if cur == nil {
				return fmt.Errorf("%s:%d: %s outside func", path, d.line, kw)
			}
			c, err := mkClause(rest, d.line)
			if err != nil {
				return err
			}
			if kw == "requires" {
				cur.Requires = append(cur.Requires, c)
			} else {
				cur.Ensures = append(cur.Ensures, c)
			}
		case "loop":
			if cur == nil || len(fs) < 3 {
				return fmt.Errorf("%s:%d: bad loop directive", path, d.line)
			}
			n, err := strconv.Atoi(fs[1])
			if err != nil {
				return fmt.Errorf("%s:%d: loop ordinal: %v", path, d.line, err)
			}
			ls := cur.Loops[n]
			if ls == nil {
				ls = &LoopSpec{}
				cur.Loops[n] = ls
			}
			r2 := strings.TrimSpace(strings.TrimPrefix(strings.TrimSpace(strings.TrimPrefix(rest, fs[1])), fs[2]))
			switch fs[2] {
			case "invariant":
				c, err := mkClause(r2, d.line)
				if err != nil {
					return err
				}
				ls.Invs = append(ls.Invs, c)
			case "decreases":
				for _, part := range splitList(r2) {
					e, err := parseSpec(part)
					if err != nil {
						return fmt.Errorf("%s:%d: %v", path, d.line, err)
					}
					ls.Decreases = append(ls.Decreases, &Clause{Label: "decreases", Props: props, Src: part, E: e, File: path, Line: d.line})
				}
			default:
				return fmt.Errorf("%s:%d: loop %s?", path, d.line, fs[2])
			}
		case "site":
			// site <kind> <target> [min=N] label: expr
			if cur == nil || len(fs) < 4 {
				return fmt.Errorf("%s:%d: bad site directive", path, d.line)
			}
			kind, target := fs[1], fs[2]
			r2 := strings.TrimSpace(strings.TrimPrefix(strings.TrimSpace(strings.TrimPrefix(rest, kind)), target))
			min := 1
			if strings.HasPrefix(r2, "min=") {
				f := strings.Fields(r2)[0]
				min, _ = strconv.Atoi(strings.TrimPrefix(f, "min="))
				r2 = strings.TrimSpace(strings.TrimPrefix(r2, f))
			}
			c, err := mkClause(r2, d.line)
			if err != nil {
				return err
			}
			cur.Sites = append(cur.Sites, &SiteSpec{Kind: kind, Target: target, C: c, Min: min})
		case "pred", "specfn":
			// pred name(a, b) = expr          (macro)
			// specfn name(a, b) Int = expr    (recursive specification function)
			i := strings.Index(rest, "=")
			j := strings.Index(rest, "(")
			k := strings.Index(rest, ")")
			if i < 0 || j < 0 || k < 0 || k > i {
				return fmt.Errorf("%s:%d: bad pred", path, d.line)
			}
			name := strings.TrimSpace(rest[:j])
			var params []string
			for _, p := range strings.Split(rest[j+1:k], ",") {
				p = strings.TrimSpace(p)
				if p == "" {
					continue
				}
				params = append(params, strings.Fields(p)[0])
			}
			body := strings.TrimSpace(rest[i+1:])
			e, err := parseSpec(body)
			if err != nil {
				return fmt.Errorf("%s:%d: %v", path, d.line, err)
			}
			pr := &Pred{Name: name, Params: params, Body: e, Src: body, Pkg: pkg}
			if kw == "specfn" {
				pr.Rec = true
				pr.Res = SInt
				if so := strings.TrimSpace(rest[k+1 : i]); so != "" {
					pr.Res = Sort(so)
				}
			}
			cs.Preds[pkg+"."+name] = pr
			if _, dup := cs.Preds[name]; !dup {
				cs.Preds[name] = pr
			}
		case "assume":
			// assume after <callee> label: expr because <reason>
			// An explicit, listed assumption about a library call's effect.
			if cur == nil || len(fs) < 4 || fs[1] != "after" {
				return fmt.Errorf("%s:%d: bad assume (want: assume after <callee> label: expr because reason)", path, d.line)
			}
			r2 := strings.TrimSpace(strings.TrimPrefix(strings.TrimSpace(strings.TrimPrefix(rest, "after")), fs[2]))
			why := ""
			if j := strings.LastIndex(r2, " because "); j >= 0 {
				why = strings.TrimSpace(r2[j+9:])
				r2 = r2[:j]
			}
			c, err := mkClause(r2, d.line)
			if err != nil {
				return err
			}
			cur.Sites = append(cur.Sites, &SiteSpec{Kind: "assume-after", Target: fs[2], C: c, Min: 1, Why: why})
		case "ghostset":
			// ghostset after <callee> <name> <Sort>: expr
			// A ghost variable (initially false / 0) updated after every call to <callee>;
			// the expression may read the ghost's previous value and ret/ret0../argN.
			if cur == nil || len(fs) < 6 || fs[1] != "after" {
				return fmt.Errorf("%s:%d: bad ghostset (want: ghostset after <callee> name Sort: expr)", path, d.line)
			}
			so := strings.TrimSuffix(fs[4], ":")
			i := strings.Index(rest, ":")
			if i < 0 {
				return fmt.Errorf("%s:%d: ghostset needs ': expr'", path, d.line)
			}
			// the ':' of the clause is the first one after the sort token
			k := strings.Index(rest, fs[4])
			i = k + strings.Index(rest[k:], ":")
			e, err := parseSpec(rest[i+1:])
			if err != nil {
				return fmt.Errorf("%s:%d: %v", path, d.line, err)
			}
			min := 1
			if fs[2] == "-" {
				min = 0 // declaration only: the function mentions the ghost but updates it through callees
			}
			cur.Sites = append(cur.Sites, &SiteSpec{Kind: "ghost-after", Target: fs[2], C: &Clause{Label: fs[3], Props: props, Src: rest[i+1:], E: e, File: path, Line: d.line}, Min: min, Why: so})
		case "lemma":
			l, err := parseLemma(rest, pkg, path, d.line, props)
			if err != nil {
				return err
			}
			cs.Lemmas[pkg+"."+l.Name] = l
			if _, dup := cs.Lemmas[l.Name]; !dup {
				cs.Lemmas[l.Name] = l
			}
		case "apply":
			// apply post|loopN lemma(args)
			if cur == nil || len(fs) < 3 {
				return fmt.Errorf("%s:%d: bad apply", path, d.line)
			}
			src := strings.TrimSpace(strings.TrimPrefix(rest, fs[1]))
			e, err := parseSpec(src)
			if err != nil {
				return fmt.Errorf("%s:%d: %v", path, d.line, err)
			}
			call, ok := e.(*SCall)
			if !ok {
				return fmt.Errorf("%s:%d: apply needs lemma(args)", path, d.line)
			}
			cur.Applies = append(cur.Applies, &Apply{Where: fs[1], Call: call, Src: src})
		case "ufun":
			// ufun name(Sort, Sort) Sort
			j := strings.Index(rest, "(")
			k := strings.Index(rest, ")")
			if j < 0 || k < 0 {
				return fmt.Errorf("%s:%d: bad ufun", path, d.line)
			}
			u := &UFun{Name: strings.TrimSpace(rest[:j]), Res: Sort(strings.TrimSpace(rest[k+1:]))}
			for _, a := range strings.Split(rest[j+1:k], ",") {
				if a = strings.TrimSpace(a); a != "" {
					u.Args = append(u.Args, Sort(a))
				}
			}
			cs.UFuns[u.Name] = u
		case "owned":
			// owned <label> <owner> : f, g, h
			// Every call path from a goroutine entry or an API entry point to f, g, h passes
			// through <owner> (the single goroutine that owns the state they work on).
			i := strings.Index(rest, ":")
			head := strings.Fields(rest[:max(i, 0)])
			if i < 0 || len(head) != 2 {
				return fmt.Errorf("%s:%d: bad owned", path, d.line)
			}
			cs.WLs = append(cs.WLs, &Whitelist{Kind: "owned", Label: head[0], Target: head[1], Allowed: splitList(rest[i+1:]), Props: props, Pkg: pkg, File: path, Line: d.line})
		case "callers", "writers", "raincallers", "intx":
			// intx <label> <m1,m2,...> : opener, opener   (rain module): every call of one of the
			// methods is made inside a function literal that is handed directly to an opener (or
			// in a function that is only ever called from such literals)
			// callers <label> <target> : a, b, c        (whole program, dependencies included)
			// raincallers <label> <target> : a, b, c    (functions of the rain module only)
			rainOnly := kw == "raincallers"
			if rainOnly {
				kw = "callers"
			}
			i := strings.Index(rest, ":")
			if i < 0 || len(fs) < 3 {
				return fmt.Errorf("%s:%d: bad %s", path, d.line, kw)
			}
			head := strings.Fields(rest[:i])
			if len(head) < 2 {
				return fmt.Errorf("%s:%d: %s needs label and target", path, d.line, kw)
			}
			wl := &Whitelist{Kind: kw, Label: head[0], Target: head[1], Allowed: splitList(rest[i+1:]), Props: props, Pkg: pkg, File: path, Line: d.line}
			if len(head) >= 4 && head[2] == "=" {
				wl.ValueIs = head[3]
			}
			wl.RainOnly = rainOnly
			cs.WLs = append(cs.WLs, wl)
		case "layout":
			// layout <label> <Type> : Name:type, Name:type, ...
			i := strings.Index(rest, ":")
			head := strings.Fields(rest[:max(i, 0)])
			if i < 0 || len(head) != 2 {
				return fmt.Errorf("%s:%d: bad layout", path, d.line)
			}
			cs.WLs = append(cs.WLs, &Whitelist{Kind: "layout", Label: head[0], Target: head[1], Allowed: splitList(rest[i+1:]), Props: props, Pkg: pkg, File: path, Line: d.line})
		case "dyncall":
			// dyncall Iface.Method preserves A.f, B.g because ...
			// dyncall Iface.Method pure because ...      (no writes; result is a function of the receiver)
			if j := strings.Index(rest, " pure"); j >= 0 && !strings.Contains(rest, " preserves ") {
				ds := &DynSpec{Method: strings.TrimSpace(rest[:j]), Pkg: pkg, Pure: true}
				if k := strings.Index(rest, " because "); k >= 0 {
					ds.Why = strings.TrimSpace(rest[k+9:])
				}
				cs.Dyn = append(cs.Dyn, ds)
				break
			}
			i := strings.Index(rest, " preserves ")
			if i < 0 {
				return fmt.Errorf("%s:%d: bad dyncall", path, d.line)
			}
			ds := &DynSpec{Method: strings.TrimSpace(rest[:i]), Pkg: pkg}
			r2 := rest[i+len(" preserves "):]
			if j := strings.Index(r2, " because "); j >= 0 {
				ds.Why = strings.TrimSpace(r2[j+9:])
				r2 = r2[:j]
			}
			ds.Preserves = splitList(r2)
			cs.Dyn = append(cs.Dyn, ds)
		case "chan":
			// chan Type.field label: expr over 'value'
			if len(fs) < 3 {
				return fmt.Errorf("%s:%d: bad chan", path, d.line)
			}
			r2 := strings.TrimSpace(strings.TrimPrefix(rest, fs[1]))
			c, err := mkClause(r2, d.line)
			if err != nil {
				return err
			}
			cs.Chans = append(cs.Chans, &ChanSpec{Pkg: pkg, Target: fs[1], C: c})
		default:
			return fmt.Errorf("%s:%d: unknown directive %q", path, d.line, kw)
		}
	}
	return nil
}

func splitList(s string) []string {
	var out []string
	depth := 0
	cur := ""
	for _, r := range s {
		switch r {
		case '(', '[':
			depth++
		case ')', ']':
			depth--
		}
		if r == ',' && depth == 0 {
			if t := strings.TrimSpace(cur); t != "" {
				out = append(out, t)
			}
			cur = ""
			continue
		}
		cur += string(r)
	}
	if t := strings.TrimSpace(cur); t != "" {
		out = append(out, t)
	}
	return out
}

func contains(xs []string, x string) bool {
	for _, y := range xs {
		if y == x {
			return true
		}
	}
	return false
}

func shortID(id string) string { return strings.TrimPrefix(id, modPrefix) }
