package main

import (
	"fmt"
	"os"
	"go/token"
	"go/types"
	"sort"

	"golang.org/x/tools/go/ssa"
)

// leakedAllocs decides, per function, which of its allocations may become
// reachable by code that is not executed inline (callees that are havoc'd,
// the heap, interfaces, channels, goroutines). Cells of allocations that do
// not leak are provably untouched by any havoc'd call, whatever its frame.
var leakCache = map[*ssa.Function]map[*ssa.Alloc]bool{}

func (g *Global) leakedAllocs(fn *ssa.Function) map[*ssa.Alloc]bool {
	if m, ok := leakCache[fn]; ok {
		return m
	}
	m := map[*ssa.Alloc]bool{}
	leakCache[fn] = m
	for _, b := range fn.Blocks {
		for _, in := range b.Instrs {
			if al, ok := in.(*ssa.Alloc); ok {
				if g.valueLeaks(al, map[ssa.Value]bool{}, 0) {
					m[al] = true
				}
			}
		}
	}
	return m
}

// nonRetaining: library entry points trusted not to keep (or publish) the
// pointers they are given beyond the call. Listed in the evidence.
var nonRetainingFns = map[string]bool{
	"encoding/binary.Read": true, "encoding/binary.Write": true, "encoding/binary.Size": true,
	"github.com/zeebo/bencode.DecodeBytes": true, "github.com/zeebo/bencode.DecodeString": true,
	"github.com/zeebo/bencode.EncodeBytes": true, "(*github.com/zeebo/bencode.Decoder).Decode": true,
	"(*github.com/zeebo/bencode.Encoder).Encode": true,
	"encoding/json.Unmarshal": true, "encoding/json.Marshal": true,
}

func nonRetaining(callee *ssa.Function) bool {
	return nonRetainingFns[callee.String()] || isPurePkg(fnPkgPath(callee))
}

func safeCallee(g *Global, c *ssa.CallCommon, argIdx int) bool {
	if _, ok := c.Value.(*ssa.Builtin); ok {
		return true
	}
	callee := c.StaticCallee()
	if callee == nil {
		return false
	}
	if isAtomicFn(callee) {
		return true
	}
	if _, ok := externModels[externName(callee)]; ok {
		return true
	}
	if fc := g.cs.Funcs[fnID(callee)]; fc != nil && ((fc.CallsArg > 0 && fc.CallsArg-1 == argIdx) || (fc.MayCallArg > 0 && fc.MayCallArg-1 == argIdx)) {
		return true
	}
	return false
}

// valueLeaks follows a pointer-like value (an allocation's address, a derived
// address, a closure capturing it) through the function.
func (g *Global) valueLeaks(v ssa.Value, seen map[ssa.Value]bool, depth int) bool {
	if seen[v] {
		return false
	}
	seen[v] = true
	if depth > 8 {
		return true
	}
	refs := v.Referrers()
	if refs == nil {
		return true
	}
	for _, r := range *refs {
		switch r := r.(type) {
		case *ssa.DebugRef:
		case *ssa.UnOp:
			if r.Op != token.MUL {
				return true
			}
			// load through the address: the loaded value is not the address
		case *ssa.Store:
			if r.Val != v {
				continue // used as the address
			}
			// the value is stored somewhere: fine only into a local cell of this function whose
			// own address does not leak; then every load of that cell carries the value on
			dst, ok := r.Addr.(*ssa.Alloc)
			if !ok {
				return true
			}
			if g.valueLeaks(dst, seen, depth+1) {
				return true
			}
			if drefs := dst.Referrers(); drefs != nil {
				for _, dr := range *drefs {
					if ld, ok := dr.(*ssa.UnOp); ok && ld.Op == token.MUL && ld.X == dst {
						if g.valueLeaks(ld, seen, depth+1) {
							return true
						}
					}
				}
			}
		case *ssa.FieldAddr:
			if g.valueLeaks(r, seen, depth+1) {
				return true
			}
		case *ssa.IndexAddr:
			if r.X == v && g.valueLeaks(r, seen, depth+1) {
				return true
			}
		case *ssa.Slice:
			if g.valueLeaks(r, seen, depth+1) {
				return true
			}
		case *ssa.ChangeType:
			if g.valueLeaks(r, seen, depth+1) {
				return true
			}
		case *ssa.MakeInterface:
			// boxed pointer handed to library code that decodes into it and does not keep it
			irefs := r.Referrers()
			if irefs == nil {
				return true
			}
			for _, ir := range *irefs {
				switch ir := ir.(type) {
				case *ssa.DebugRef:
				case ssa.CallInstruction:
					if _, isGo := ir.(*ssa.Go); isGo {
						return true
					}
					callee := ir.Common().StaticCallee()
					if callee == nil || !nonRetaining(callee) {
						return true
					}
				default:
					return true
				}
			}
		case *ssa.MakeClosure:
			if leakIgnoreClosure != nil && leakIgnoreClosure(r) {
				continue // flow-sensitive query: this closure is made only after the call in question
			}
			// captured: the closure value must not leak, and the closure body must not leak
			// the corresponding free variable
			if g.valueLeaks(r, seen, depth+1) {
				return true
			}
			fn := r.Fn.(*ssa.Function)
			for i, b := range r.Bindings {
				if b == v && i < len(fn.FreeVars) {
					if g.valueLeaks(fn.FreeVars[i], seen, depth+1) {
						return true
					}
				}
			}
		case ssa.CallInstruction:
			if _, isGo := r.(*ssa.Go); isGo {
				return true
			}
			c := r.Common()
			if c.Value == v {
				continue // calling the closure itself
			}
			for i, a := range c.Args {
				if a == v && !safeCallee(g, c, i) {
					// statically known function literal called directly with the pointer: follow the parameter
					if callee := staticClosure(c.Value); callee != nil && callee.Parent() != nil && i < len(callee.Params) {
						if g.valueLeaks(callee.Params[i], seen, depth+1) {
							return true
						}
						continue
					}
					return true
				}
			}
		default:
			return true
		}
	}
	return false
}

// preserveLocals: after a havoc of keys, the cells of this execution's own
// non-leaked allocations keep their values.
func (ex *Exec) preserveLocals(fr *Frame, pc Term, old, cur State, keys map[string]bool, c *ssa.CallCommon) {
	// allocations whose address is handed to this very call may be written by it
	passed := map[*ssa.Alloc]bool{}
	if c != nil {
		var root func(v ssa.Value, depth int)
		root = func(v ssa.Value, depth int) {
			if depth > 6 {
				return
			}
			switch x := v.(type) {
			case *ssa.Alloc:
				passed[x] = true
			case *ssa.MakeInterface:
				root(x.X, depth+1)
			case *ssa.Slice:
				root(x.X, depth+1)
			case *ssa.FieldAddr:
				root(x.X, depth+1)
			case *ssa.IndexAddr:
				root(x.X, depth+1)
			case *ssa.ChangeType:
				root(x.X, depth+1)
			case *ssa.MakeClosure:
				for _, b := range x.Bindings {
					root(b, depth+1)
				}
			case *ssa.UnOp:
				// a loaded closure or pointer: be conservative about what it may reach
				if al, ok := x.X.(*ssa.Alloc); ok && x.Op == token.MUL {
					if refs := al.Referrers(); refs != nil {
						for _, r := range *refs {
							if s, ok := r.(*ssa.Store); ok && s.Addr == al {
								root(s.Val, depth+1)
							}
						}
					}
				}
			}
		}
		for _, a := range c.Args {
			root(a, 0)
		}
		root(c.Value, 0)
	}
	for f := fr; f != nil; f = f.parent {
		leaked := ex.g.leakedAllocs(f.fn)
		addrs := f.allocAddrs()
		var als []*ssa.Alloc
		for al := range addrs {
			als = append(als, al)
		}
		sort.Slice(als, func(i, j int) bool { return allocOrder(als[i]) < allocOrder(als[j]) })
		for _, al := range als {
			a := addrs[al]
			if leaked[al] && f == fr && c != nil && !passed[al] && a.Local == nil && a.Ref.S != "" && ex.g.leaksOnlyLater(al, fr.fn, c) {
				// the allocation leaks only through function literals that are made after this
				// call on every path: the callee cannot have its address yet
			} else if leaked[al] || passed[al] || a.Local != nil || a.Ref.S == "" {
				continue
			}
			el := al.Type().Underlying().(*types.Pointer).Elem()
			for _, lf := range ex.leaves(el) {
				if !keys[lf.key] {
					continue
				}
				if _, touched := cur.m[lf.key]; !touched {
					continue
				}
				aso := arraySort(SRef, lf.so)
				ov := ex.get(old, lf.key, aso)
				nv := ex.get(cur, lf.key, aso)
				if ov.S == nv.S {
					continue
				}
				addr := T(lf.addr(a.Ref.S), SRef)
				ex.vc.assume(tTrue, eq(sel(nv, addr, lf.so), sel(ov, addr, lf.so)), "callee cannot reach non-escaping local "+al.Comment)
			}
		}
	}
	ex.preservePrivateFreeVars(fr, old, cur, keys, c)
}

func (f *Frame) allocAddrs() map[*ssa.Alloc]*Addr {
	out := map[*ssa.Alloc]*Addr{}
	for v, a := range f.addrs {
		if al, ok := v.(*ssa.Alloc); ok {
			out[al] = a
		}
	}
	return out
}

// ---- captured variables that only a family of function literals can reach ----

// captureFamily: for a free variable of a function literal, the set of functions
// (the declaring function and every literal that captures the same variable) that
// can hold the variable's address; nil when the address may travel anywhere else.
func (g *Global) captureFamily(fv *ssa.FreeVar) map[*ssa.Function]bool {
	if g.famCache == nil {
		g.famCache = map[*ssa.FreeVar]map[*ssa.Function]bool{}
	}
	if f, ok := g.famCache[fv]; ok {
		return f
	}
	g.famCache[fv] = nil
	lit := fv.Parent()
	if lit == nil || lit.Parent() == nil {
		return nil
	}
	idx := -1
	for i, x := range lit.FreeVars {
		if x == fv {
			idx = i
		}
	}
	// the cell: the binding of fv in the MakeClosure that creates lit
	var cell *ssa.Alloc
	n := 0
	var scan func(fn *ssa.Function)
	scan = func(fn *ssa.Function) {
		for _, b := range fn.Blocks {
			for _, in := range b.Instrs {
				if mc, ok := in.(*ssa.MakeClosure); ok && mc.Fn == lit && idx < len(mc.Bindings) {
					n++
					if al, ok := mc.Bindings[idx].(*ssa.Alloc); ok {
						cell = al
					} else {
						cell = nil
						n = 99
					}
				}
			}
		}
		for _, a := range fn.AnonFuncs {
			scan(a)
		}
	}
	scan(lit.Parent())
	if cell == nil || n != 1 {
		return nil
	}
	fam := map[*ssa.Function]bool{cell.Parent(): true}
	var ok func(v ssa.Value) bool
	ok = func(v ssa.Value) bool {
		refs := v.Referrers()
		if refs == nil {
			return false
		}
		for _, r := range *refs {
			switch r := r.(type) {
			case *ssa.Store:
				if r.Val == v {
					return false
				}
			case *ssa.UnOp:
				if r.Op != token.MUL {
					return false
				}
			case *ssa.DebugRef:
			case *ssa.FieldAddr:
				if !ok(r) {
					return false
				}
			case *ssa.IndexAddr:
				if r.X != v || !ok(r) {
					return false
				}
			case *ssa.MakeClosure:
				cfn, isFn := r.Fn.(*ssa.Function)
				if !isFn {
					return false
				}
				for i, b := range r.Bindings {
					if b == v {
						// the literal's value must stay inside its parent (only ever called there),
						// so that nobody else can run it on this activation's variables
						if i >= len(cfn.FreeVars) || !onlyCalled(r) || !ok(cfn.FreeVars[i]) {
							return false
						}
						fam[cfn] = true
					}
				}
			default:
				return false
			}
		}
		return true
	}
	if !ok(cell) {
		return nil
	}
	// the declaring function itself is not a member: a callee that reaches it starts a new
	// activation with its own variables
	delete(fam, cell.Parent())
	g.famCache[fv] = fam
	return fam
}

// reachesAny: some function of the set is reachable from fn in the call graph.
func (g *Global) reachesAny(fn *ssa.Function, set map[*ssa.Function]bool) bool {
	seen := map[*ssa.Function]bool{}
	var dfs func(f *ssa.Function) bool
	dfs = func(f *ssa.Function) bool {
		if set[f] {
			return true
		}
		if seen[f] {
			return false
		}
		seen[f] = true
		node := g.cg.Nodes[f]
		if node == nil {
			return false
		}
		for _, e := range node.Out {
			if e.Callee != nil && e.Callee.Func != nil && dfs(e.Callee.Func) {
				return true
			}
		}
		// function literals created here may be run by whoever receives them
		for _, a := range f.AnonFuncs {
			if dfs(a) {
				return true
			}
		}
		return false
	}
	return dfs(fn)
}

// preservePrivateFreeVars: while a function literal is verified on its own, a
// variable it captured keeps its value across a call that cannot reach any function
// able to hold that variable's address.
func (ex *Exec) preservePrivateFreeVars(fr *Frame, old, cur State, keys map[string]bool, c *ssa.CallCommon) {
	if c == nil || ex.rootFrame == nil || ex.rootFrame.fn.Parent() == nil {
		return
	}
	root := ex.rootFrame.fn
	var callees []*ssa.Function
	if sc := c.StaticCallee(); sc != nil {
		callees = []*ssa.Function{sc}
	} else if node := ex.g.cg.Nodes[fr.fn]; node != nil {
		for _, e := range node.Out {
			if e.Site != nil && e.Site.Common() == c && e.Callee != nil && e.Callee.Func != nil {
				callees = append(callees, e.Callee.Func)
			}
		}
		if len(callees) == 0 {
			return // unknown targets
		}
	} else {
		return
	}
	for _, fv := range root.FreeVars {
		pt, isPtr := fv.Type().Underlying().(*types.Pointer)
		if !isPtr {
			continue
		}
		fam := ex.g.captureFamily(fv)
		if fam == nil {
			continue
		}
		ref, ok := ex.rootFrame.vals[fv]
		if !ok || ref.Sort != SRef {
			continue
		}
		reach := false
		for _, cal := range callees {
			// the family's closure values never leave the declaring function (captureFamily), so
			// only a direct call of a member can run code that holds the variable's address
			r := fam[cal]
			if r {
				reach = true
				if os.Getenv("RAINVC_DEBUG") != "" {
					fmt.Fprintf(os.Stderr, "captured %s not preserved: %s reaches its family\n", fv.Name(), cal.String())
				}
				break
			}
		}
		if reach {
			continue
		}
		for _, lf := range ex.leaves(pt.Elem()) {
			if !keys[lf.key] {
				continue
			}
			if _, touched := cur.m[lf.key]; !touched {
				continue
			}
			aso := arraySort(SRef, lf.so)
			ov := ex.get(old, lf.key, aso)
			nv := ex.get(cur, lf.key, aso)
			if ov.S == nv.S {
				continue
			}
			addr := T(lf.addr(ref.S), SRef)
			ex.vc.assume(tTrue, eq(sel(nv, addr, lf.so), sel(ov, addr, lf.so)), "callee cannot reach captured variable "+fv.Name())
		}
	}
}


// ---- flow-sensitive refinement: leaks through closures that do not exist yet ----

var leakIgnoreClosure func(*ssa.MakeClosure) bool

// leaksOnlyLater: al leaks, but only through MakeClosure instructions of fn that cannot have
// been executed when the call c is made (no path from the MakeClosure to the call).
func (g *Global) leaksOnlyLater(al *ssa.Alloc, fn *ssa.Function, c *ssa.CallCommon) bool {
	var call ssa.Instruction
	for _, b := range fn.Blocks {
		for _, in := range b.Instrs {
			if ci, ok := in.(ssa.CallInstruction); ok && ci.Common() == c {
				call = in
			}
		}
	}
	if call == nil || al.Parent() != fn {
		return false
	}
	idx := func(in ssa.Instruction) int {
		for i, x := range in.Block().Instrs {
			if x == in {
				return i
			}
		}
		return -1
	}
	reach := map[*ssa.BasicBlock]map[*ssa.BasicBlock]bool{}
	reaches := func(a, b *ssa.BasicBlock) bool { // b reachable from a by one or more edges
		m, ok := reach[a]
		if !ok {
			m = map[*ssa.BasicBlock]bool{}
			var walk func(x *ssa.BasicBlock)
			walk = func(x *ssa.BasicBlock) {
				for _, s := range x.Succs {
					if !m[s] {
						m[s] = true
						walk(s)
					}
				}
			}
			walk(a)
			reach[a] = m
		}
		return m[b]
	}
	before := func(mc *ssa.MakeClosure) bool { // may mc have run when call runs?
		if mc.Parent() != fn {
			return true
		}
		if reaches(mc.Block(), call.Block()) {
			return true
		}
		return mc.Block() == call.Block() && idx(mc) < idx(call)
	}
	leakIgnoreClosure = func(mc *ssa.MakeClosure) bool { return !before(mc) }
	defer func() { leakIgnoreClosure = nil }()
	return !g.valueLeaks(al, map[ssa.Value]bool{}, 0)
}
