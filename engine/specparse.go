package main

import (
	"fmt"
	"strings"
	"unicode"
)

// Spec expression AST.
type SExpr interface{}

type (
	SIdent  struct{ Name string }
	SIntLit struct{ V string }
	SStrLit struct{ V string }
	SBoolLit struct{ V bool }
	SNil    struct{}
	SUnary  struct {
		Op string
		X  SExpr
	}
	SBinary struct {
		Op   string
		X, Y SExpr
	}
	SCond struct{ C, A, B SExpr }
	SCall struct {
		Fun  string
		Args []SExpr
	}
	SSel struct {
		X    SExpr
		Name string
	}
	SIndex struct{ X, I SExpr }
	SQuant struct {
		Forall bool
		Vars   []string
		Sorts  []string
		Body   SExpr
		Trig   []SExpr
	}
	SChain struct { // a <= b < c
		Ops   []string
		Terms []SExpr
	}
)

type tok struct {
	kind string // id, int, str, op, eof
	text string
	pos  int
}

func lexSpec(s string) ([]tok, error) {
	var out []tok
	i := 0
	for i < len(s) {
		c := s[i]
		switch {
		case c == ' ' || c == '\t' || c == '\n' || c == '\r':
			i++
		case unicode.IsLetter(rune(c)) || c == '_':
			j := i
			for j < len(s) && (unicode.IsLetter(rune(s[j])) || unicode.IsDigit(rune(s[j])) || s[j] == '_' || s[j] == '#') {
				j++
			}
			out = append(out, tok{"id", s[i:j], i})
			i = j
		case c >= '0' && c <= '9':
			j := i
			for j < len(s) && (s[j] >= '0' && s[j] <= '9' || s[j] == '_' || s[j] == 'x' || (s[j] >= 'a' && s[j] <= 'f') || (s[j] >= 'A' && s[j] <= 'F')) {
				j++
			}
			out = append(out, tok{"int", strings.ReplaceAll(s[i:j], "_", ""), i})
			i = j
		case c == '"':
			j := i + 1
			for j < len(s) && s[j] != '"' {
				if s[j] == '\\' {
					j++
				}
				j++
			}
			if j >= len(s) {
				return nil, fmt.Errorf("unterminated string")
			}
			out = append(out, tok{"str", s[i+1 : j], i})
			i = j + 1
		default:
			ops := []string{"<==>", "==>", "::", "==", "!=", "<=", ">=", "&&", "||", "<<", ">>", "&^"}
			matched := false
			for _, op := range ops {
				if strings.HasPrefix(s[i:], op) {
					out = append(out, tok{"op", op, i})
					i += len(op)
					matched = true
					break
				}
			}
			if matched {
				continue
			}
			if strings.ContainsRune("+-*/%<>!()[]{}.,?:&|^", rune(c)) {
				out = append(out, tok{"op", string(c), i})
				i++
				continue
			}
			return nil, fmt.Errorf("unexpected character %q at %d", c, i)
		}
	}
	out = append(out, tok{"eof", "", len(s)})
	return out, nil
}

type specParser struct {
	toks []tok
	p    int
	src  string
}

func parseSpec(s string) (e SExpr, err error) {
	toks, err := lexSpec(s)
	if err != nil {
		return nil, err
	}
	sp := &specParser{toks: toks, src: s}
	defer func() {
		if r := recover(); r != nil {
			err = fmt.Errorf("spec parse error: %v in %q", r, s)
		}
	}()
	e = sp.expr()
	if sp.peek().kind != "eof" {
		panic(fmt.Sprintf("trailing input at %d: %q", sp.peek().pos, sp.peek().text))
	}
	return e, nil
}

func (sp *specParser) peek() tok { return sp.toks[sp.p] }
func (sp *specParser) next() tok { t := sp.toks[sp.p]; sp.p++; return t }
func (sp *specParser) isOp(s string) bool {
	t := sp.peek()
	return t.kind == "op" && t.text == s
}
func (sp *specParser) expect(s string) {
	t := sp.next()
	if t.text != s {
		panic(fmt.Sprintf("expected %q at %d, got %q", s, t.pos, t.text))
	}
}

func (sp *specParser) expr() SExpr {
	t := sp.peek()
	if t.kind == "id" && (t.text == "forall" || t.text == "exists") {
		sp.next()
		q := &SQuant{Forall: t.text == "forall"}
		for {
			v := sp.next()
			if v.kind != "id" {
				panic("quantifier variable expected")
			}
			q.Vars = append(q.Vars, v.text)
			so := "Int"
			if sp.peek().kind == "id" {
				so = sp.next().text
			}
			q.Sorts = append(q.Sorts, so)
			if sp.isOp(",") {
				sp.next()
				continue
			}
			break
		}
		sp.expect("::")
		for sp.isOp("{") {
			sp.next()
			q.Trig = append(q.Trig, sp.expr())
			sp.expect("}")
		}
		q.Body = sp.expr()
		return q
	}
	return sp.cond()
}

func (sp *specParser) cond() SExpr {
	c := sp.iff()
	if sp.isOp("?") {
		sp.next()
		a := sp.expr()
		sp.expect(":")
		b := sp.expr()
		return &SCond{c, a, b}
	}
	return c
}

func (sp *specParser) iff() SExpr {
	x := sp.impl()
	for sp.isOp("<==>") {
		sp.next()
		y := sp.impl()
		x = &SBinary{"<==>", x, y}
	}
	return x
}

func (sp *specParser) impl() SExpr {
	x := sp.orE()
	if sp.isOp("==>") {
		sp.next()
		var y SExpr
		if t := sp.peek(); t.kind == "id" && (t.text == "forall" || t.text == "exists") {
			y = sp.expr()
		} else {
			y = sp.impl()
		}
		return &SBinary{"==>", x, y}
	}
	return x
}

func (sp *specParser) orE() SExpr {
	x := sp.andE()
	for sp.isOp("||") {
		sp.next()
		x = &SBinary{"||", x, sp.andE()}
	}
	return x
}

func (sp *specParser) andE() SExpr {
	x := sp.cmp()
	for sp.isOp("&&") {
		sp.next()
		var y SExpr
		if t := sp.peek(); t.kind == "id" && (t.text == "forall" || t.text == "exists") {
			y = sp.expr()
		} else {
			y = sp.cmp()
		}
		x = &SBinary{"&&", x, y}
	}
	return x
}

func isCmp(s string) bool {
	switch s {
	case "==", "!=", "<", "<=", ">", ">=":
		return true
	}
	return false
}

func (sp *specParser) cmp() SExpr {
	x := sp.add()
	if t := sp.peek(); t.kind == "op" && isCmp(t.text) {
		ch := &SChain{Terms: []SExpr{x}}
		for {
			t := sp.peek()
			if t.kind != "op" || !isCmp(t.text) {
				break
			}
			sp.next()
			ch.Ops = append(ch.Ops, t.text)
			ch.Terms = append(ch.Terms, sp.add())
		}
		if len(ch.Ops) == 1 {
			return &SBinary{ch.Ops[0], ch.Terms[0], ch.Terms[1]}
		}
		return ch
	}
	return x
}

func (sp *specParser) add() SExpr {
	x := sp.mul()
	for {
		t := sp.peek()
		if t.kind == "op" && (t.text == "+" || t.text == "-" || t.text == "|" || t.text == "^") {
			sp.next()
			x = &SBinary{t.text, x, sp.mul()}
			continue
		}
		return x
	}
}

func (sp *specParser) mul() SExpr {
	x := sp.unary()
	for {
		t := sp.peek()
		if t.kind == "op" && (t.text == "*" || t.text == "/" || t.text == "%" || t.text == "&" || t.text == "<<" || t.text == ">>" || t.text == "&^") {
			sp.next()
			x = &SBinary{t.text, x, sp.unary()}
			continue
		}
		return x
	}
}

func (sp *specParser) unary() SExpr {
	t := sp.peek()
	if t.kind == "op" && (t.text == "!" || t.text == "-") {
		sp.next()
		return &SUnary{t.text, sp.unary()}
	}
	return sp.postfix()
}

func (sp *specParser) postfix() SExpr {
	x := sp.atom()
	for {
		switch {
		case sp.isOp("."):
			sp.next()
			n := sp.next()
			if n.kind != "id" {
				panic("field name expected")
			}
			x = &SSel{x, n.text}
		case sp.isOp("["):
			sp.next()
			i := sp.expr()
			sp.expect("]")
			x = &SIndex{x, i}
		case sp.isOp("("):
			// call: only on identifiers or selector (pkg.fn / method-like spec function)
			name := ""
			switch f := x.(type) {
			case *SIdent:
				name = f.Name
			case *SSel:
				if id, ok := f.X.(*SIdent); ok {
					name = id.Name + "." + f.Name
				} else {
					panic("call on non-identifier")
				}
			default:
				panic("call on non-identifier")
			}
			sp.next()
			var args []SExpr
			for !sp.isOp(")") {
				args = append(args, sp.expr())
				if sp.isOp(",") {
					sp.next()
				}
			}
			sp.expect(")")
			x = &SCall{name, args}
		default:
			return x
		}
	}
}

func (sp *specParser) atom() SExpr {
	t := sp.next()
	switch t.kind {
	case "int":
		return &SIntLit{t.text}
	case "str":
		return &SStrLit{t.text}
	case "id":
		switch t.text {
		case "true":
			return &SBoolLit{true}
		case "false":
			return &SBoolLit{false}
		case "nil":
			return &SNil{}
		}
		return &SIdent{t.text}
	case "op":
		if t.text == "(" {
			e := sp.expr()
			sp.expect(")")
			return e
		}
	}
	panic(fmt.Sprintf("unexpected token %q at %d", t.text, t.pos))
}
