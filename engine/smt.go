package main

import (
	"bytes"
	"context"
	"fmt"
	"os"
	"os/exec"
	"path/filepath"
	"strings"
	"sync"
	"time"
)

type solverSpec struct {
	name string
	args func(file string, timeoutS int) []string
}

var solvers = []solverSpec{
	{"z3-new", func(f string, t int) []string { return []string{"z3-new", fmt.Sprintf("-T:%d", t), "-smt2", f} }},
	{"cvc5", func(f string, t int) []string {
		return []string{"cvc5", fmt.Sprintf("--tlimit=%d", t*1000), "--lang=smt2", f}
	}},
	{"z3", func(f string, t int) []string { return []string{"z3", fmt.Sprintf("-T:%d", t), "-smt2", f} }},
}

type solveOut struct {
	solver string
	verdict string // unsat, sat, unknown, timeout, error
	out    string
	secs   float64
}

func runSolver(ctx context.Context, s solverSpec, file string, timeoutS int) solveOut {
	t0 := time.Now()
	args := s.args(file, timeoutS)
	cctx, cancel := context.WithTimeout(ctx, time.Duration(timeoutS+2)*time.Second)
	defer cancel()
	cmd := exec.CommandContext(cctx, args[0], args[1:]...)
	var out bytes.Buffer
	cmd.Stdout = &out
	cmd.Stderr = &out
	_ = cmd.Run()
	text := out.String()
	first := ""
	for _, ln := range strings.Split(text, "\n") {
		ln = strings.TrimSpace(ln)
		if ln == "" || strings.HasPrefix(ln, "WARNING") || strings.HasPrefix(ln, "(warning") {
			continue
		}
		first = ln
		break
	}
	v := "error"
	switch {
	case first == "unsat":
		v = "unsat"
	case first == "sat":
		v = "sat"
	case first == "unknown":
		v = "unknown"
	case strings.Contains(first, "timeout") || cctx.Err() != nil:
		v = "timeout"
	case strings.Contains(text, "interrupted") || strings.Contains(text, "timeout"):
		v = "timeout"
	}
	return solveOut{solver: s.name, verdict: v, out: text, secs: time.Since(t0).Seconds()}
}

// discharge decides one obligation: proved iff some solver answers unsat.
// thorough: every solver is asked and disagreement (sat vs unsat) is an error.
func discharge(dir string, vc *VC, o *Obligation, timeoutS int, thorough bool) {
	if o.Static {
		return
	}
	q := vc.query(o, true)
	if o.Cover {
		// Vacuity guard: the path must be satisfiable. Quantified hypotheses are dropped, which
		// only weakens the constraint set: an unsat answer still proves that the hypotheses
		// (contracts, type invariants) contradict each other on this path, and the remaining
		// query is decided quickly instead of timing out.
		var b strings.Builder
		for _, ln := range strings.Split(q, "\n") {
			if strings.HasPrefix(ln, "(assert") && (strings.Contains(ln, "(forall") || strings.Contains(ln, "(exists")) {
				continue
			}
			b.WriteString(ln + "\n")
		}
		q = b.String()
	}
	file := filepath.Join(dir, sanitize(o.ID)+".smt2")
	if err := os.WriteFile(file, []byte(q), 0o644); err != nil {
		o.Result = "error"
		o.Output = err.Error()
		return
	}
	o.SMT = file
	t0 := time.Now()
	defer func() { o.TimeS = time.Since(t0).Seconds() }()
	want := "unsat"
	if o.Cover {
		want = "sat"
	}
	if !thorough {
		// fast path: newest z3 alone with a short budget
		short := timeoutS
		if short > 4 {
			short = 4
		}
		r := runSolver(context.Background(), solvers[0], file, short)
		if r.verdict == want || (r.verdict == "sat" || r.verdict == "unsat") {
			setResult(o, r, want)
			return
		}
		if o.Cover && (r.verdict == "unknown" || r.verdict == "timeout") {
			// cannot refute satisfiability: not vacuous as far as the solver can tell
			setResult(o, r, want)
			return
		}
	}
	ctx, cancel := context.WithCancel(context.Background())
	defer cancel()
	ch := make(chan solveOut, len(solvers))
	for _, s := range solvers {
		go func(s solverSpec) { ch <- runSolver(ctx, s, file, timeoutS) }(s)
	}
	var all []solveOut
	var best *solveOut
	for range solvers {
		r := <-ch
		all = append(all, r)
		if r.verdict == "unsat" || r.verdict == "sat" {
			if best == nil {
				rr := r
				best = &rr
			}
			if !thorough {
				cancel()
				break
			}
		}
	}
	if thorough {
		seen := map[string]string{}
		for _, r := range all {
			if r.verdict == "sat" || r.verdict == "unsat" {
				seen[r.verdict] = r.solver
			}
		}
		if len(seen) == 2 {
			o.Result = "error"
			o.Output = fmt.Sprintf("solver disagreement: sat by %s, unsat by %s", seen["sat"], seen["unsat"])
			return
		}
	}
	if best != nil {
		setResult(o, *best, want)
		if thorough {
			var names []string
			for _, r := range all {
				names = append(names, r.solver+":"+r.verdict)
			}
			o.Solver = strings.Join(names, ",")
		}
		return
	}
	// nothing definitive
	r := all[0]
	for _, x := range all {
		if x.verdict == "unknown" {
			r = x
		}
	}
	setResult(o, r, want)
}

func setResult(o *Obligation, r solveOut, want string) {
	o.Solver = r.solver
	o.Output = truncate(r.out, 4000)
	switch {
	case o.Cover:
		switch r.verdict {
		case "unsat":
			o.Result = "failed" // vacuous
		case "sat", "unknown":
			o.Result = "proved"
		default:
			o.Result = "proved" // timeout on a cover: cannot show vacuity
		}
	case r.verdict == "unsat":
		o.Result = "proved"
	case r.verdict == "sat":
		o.Result = "failed"
		o.Model = truncate(r.out, 20000)
	default:
		o.Result = r.verdict
	}
}

func truncate(s string, n int) string {
	if len(s) > n {
		return s[:n] + "\n...[truncated]"
	}
	return s
}

// dischargeAll runs obligations in parallel.
func dischargeAll(dir string, jobs []func(), par int) {
	var wg sync.WaitGroup
	sem := make(chan struct{}, par)
	for _, j := range jobs {
		wg.Add(1)
		sem <- struct{}{}
		go func(j func()) {
			defer wg.Done()
			defer func() { <-sem }()
			j()
		}(j)
	}
	wg.Wait()
}
