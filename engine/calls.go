package main

import (
	"fmt"
	"go/token"
	"go/types"
	"sort"
	"strings"

	"golang.org/x/tools/go/ssa"
)

const maxInlineDepth = 6

func (ex *Exec) argTerms(fr *Frame, c *ssa.CallCommon) []Term {
	out := make([]Term, len(c.Args))
	for i, a := range c.Args {
		out[i] = ex.val(fr, a)
	}
	return out
}

// doCall executes one call. Returns the new state, result, new path condition
// (paths on which the callee returns) and whether the path is terminated.
func (ex *Exec) doCall(fr *Frame, instr ssa.CallInstruction, c *ssa.CallCommon, pc Term, st State) (State, Term, bool) {
	ex.siteCall(fr, instr, c, pc, st)
	if bi, ok := c.Value.(*ssa.Builtin); ok {
		return ex.builtin(fr, instr, bi, c, pc, st)
	}
	var resT types.Type
	if v := instr.Value(); v != nil {
		resT = v.Type()
	} else {
		resT = c.Signature().Results()
	}
	callee := c.StaticCallee()
	var clo *Closure
	if callee == nil && !c.IsInvoke() {
		v := ex.val(fr, c.Value)
		if v.Clo != nil {
			clo = v.Clo
			callee = clo.Fn
		} else if u := ex.g.uniqueCallee(fr.fn, instr); u != nil && u.Parent() != nil {
			// a function value with exactly one possible target in the (VTA-refined) call
			// graph, e.g. a function literal reached through a captured variable: its
			// contract, if it has one, applies; without one the call is havoc'd as before
			if fc := ex.g.cs.Funcs[fnID(u)]; fc != nil && !fc.Inline && (len(fc.Ensures) > 0 || len(fc.Requires) > 0) {
				ex.assumed["call through a function value resolved by the call graph to its only target "+shortID(fnID(u))] = true
				return ex.callContract(fr, instr, u, fc, c, ex.argTerms(fr, c), pc, st, resT)
			}
		}
	} else if callee != nil {
		if mc, ok := c.Value.(*ssa.MakeClosure); ok {
			v := ex.val(fr, mc)
			clo = v.Clo
		}
	}
	if callee != nil {
		args := ex.argTerms(fr, c)
		if isAtomicFn(callee) {
			if nst, res, ok := ex.atomicModel(fr, callee, c, args, pc, st); ok {
				return nst, res, false
			}
		}
		if m, ok := externModels[externName(callee)]; ok {
			if nst, res, ok := m(ex, fr, instr, c, args, pc, st); ok {
				return nst, res, false
			}
		}
		id := fnID(callee)
		fc := ex.g.cs.Funcs[id]
		if fc != nil && fc.CallsArg > 0 && fc.CallsArg-1 < len(args) {
			// trusted "calls its argument once" model (e.g. a cache running its loader)
			if cb := args[fc.CallsArg-1]; cb.Clo != nil && cb.Clo.Fn.Blocks != nil {
				ex.assumed[fmt.Sprintf("%s behaves as one call of its function argument and returns its results (%s)", shortID(id), fc.TrustWhy)] = true
				return ex.inlineCall(fr, instr, cb.Clo.Fn, cb.Clo, &ssa.CallCommon{}, nil, pc, st)
			}
		}
		if fc != nil && fc.MayCallArg > 0 && fc.MayCallArg-1 < len(args) {
			if cb := args[fc.MayCallArg-1]; cb.Clo != nil && cb.Clo.Fn.Blocks != nil {
				ex.assumed[fmt.Sprintf("%s invokes its callback argument at most once and does not retain it (%s)", shortID(id), fc.TrustWhy)] = true
				// the callee's own effects (its inferred frame; the callback's cells are kept by
				// the leak analysis because they are reachable only through the callback)
				st2, res, term := ex.havocCallOwn(fr, instr, callee, c, pc, st, resT)
				if term {
					return st2, res, true
				}
				called := ex.vc.fresh("callback_ran", SBool)
				cfn := cb.Clo.Fn
				fr2 := ex.newFrame(cfn, fr)
				ex.inlined[fnID(cfn)] = true
				for _, p := range cfn.Params {
					v := ex.freshTyped(pc, "cbarg_"+p.Name(), p.Type())
					fr2.vals[p] = v
					fr2.params[p.Name()] = v
				}
				for i, fv := range cfn.FreeVars {
					if i < len(cb.Clo.Bindings) {
						fr2.vals[fv] = cb.Clo.Bindings[i]
						fr2.addrs[fv] = cb.Clo.BindAddr[i]
					}
				}
				cpc := ex.vc.def("cbpc", and(pc, called))
				rpc, rst, _ := ex.execFn(fr2, cpc, st2)
				ran := ex.vc.def("cbran", and(called, rpc))
				st3 := ex.mergeStates([]inEdge{{cond: ran, st: rst}, {cond: not(ran), st: st2}})
				// a callback that does not return (panics) ends the path
				ex.vc.assume(pc, implies(called, rpc), "callback returned")
				return st3, res, false
			}
		}
		if fc != nil && !fc.Inline && (len(fc.Ensures) > 0 || len(fc.Requires) > 0 || fc.Pure || fc.Trusted) {
			ex.curClo = clo
			defer func() { ex.curClo = nil }()
			return ex.callContract(fr, instr, callee, fc, c, args, pc, st, resT)
		}
		if ex.shouldInline(fr, callee, fc, clo) {
			return ex.inlineCall(fr, instr, callee, clo, c, args, pc, st)
		}
	}
	return ex.havocCall(fr, instr, c, pc, st, resT)
}

// closedKeyOf names the ghost array that records whether a channel is closed:
// per struct field when the channel operand is loaded from a field.
func closedKeyOf(ch ssa.Value) string {
	if u, ok := ch.(*ssa.UnOp); ok && u.Op == token.MUL {
		if fa, ok := u.X.(*ssa.FieldAddr); ok {
			st := fa.X.Type().Underlying().(*types.Pointer).Elem()
			return fmt.Sprintf("G|closed|%s|%d", typeKey(st), fa.Field)
		}
	}
	return "G|closed"
}

func (ex *Exec) havocCallOwn(fr *Frame, instr ssa.CallInstruction, callee *ssa.Function, c *ssa.CallCommon, pc Term, st State, resT types.Type) (State, Term, bool) {
	// the callback's captured cells are reached only through the callback, which the caller models explicitly
	ex.callbackModelled = true
	defer func() { ex.callbackModelled = false }()
	return ex.havocCall(fr, instr, c, pc, st, resT)
}

func hasLoops(fn *ssa.Function) bool { return len(analyzeCFG(fn).loops) > 0 }

func instrCount(fn *ssa.Function) int {
	n := 0
	for _, b := range fn.Blocks {
		for _, in := range b.Instrs {
			if _, dbg := in.(*ssa.DebugRef); !dbg {
				n++
			}
		}
	}
	return n
}

func (ex *Exec) shouldInline(fr *Frame, callee *ssa.Function, fc *FuncContract, clo *Closure) bool {
	if callee.Blocks == nil || fr.depth >= maxInlineDepth {
		return false
	}
	for f := fr; f != nil; f = f.parent {
		if f.fn == callee {
			return false // recursion
		}
	}
	if fc != nil && fc.Inline {
		return true
	}
	if fc != nil && fc.NoAuto {
		return false
	}
	if callee.Parent() != nil {
		// anonymous function literal: inline when its loops (if any) are annotated or absent
		if !hasLoops(callee) {
			return true
		}
		return fc != nil
	}
	if !isRainFn(callee) {
		return false
	}
	if ex.fc != nil && ex.fc.NoAuto {
		return false
	}
	return !hasLoops(callee) && instrCount(callee) <= 60 && fr.depth < 3
}

func (ex *Exec) inlineCall(fr *Frame, instr ssa.CallInstruction, callee *ssa.Function, clo *Closure, c *ssa.CallCommon, args []Term, pc Term, st State) (State, Term, bool) {
	fr2 := ex.newFrame(callee, fr)
	ex.inlined[fnID(callee)] = true
	for i, p := range callee.Params {
		if i < len(args) {
			fr2.vals[p] = args[i]
			fr2.params[p.Name()] = args[i]
			if a, ok := fr.addrs[c.Args[i]]; ok {
				fr2.addrs[p] = a
			}
		}
	}
	for i, fv := range callee.FreeVars {
		if clo != nil && i < len(clo.Bindings) {
			fr2.vals[fv] = clo.Bindings[i]
			fr2.addrs[fv] = clo.BindAddr[i]
		} else {
			fr2.vals[fv] = ex.vc.fresh("freevar", ex.te.sortOf(fv.Type()))
		}
	}
	rpc, rst, results := ex.execFn(fr2, pc, st)
	if rpc.S == "false" {
		return st, Term{}, true
	}
	// Paths on which the callee does not return are dropped from here on.
	ex.vc.assume(pc, rpc, "inlined callee returned: "+callee.Name())
	var res Term
	switch len(results) {
	case 0:
	case 1:
		res = results[0]
	default:
		res = Term{Tuple: results}
	}
	return rst, res, false
}

// havocKeys replaces each key by a fresh array.
func (ex *Exec) havocKeys(st State, keys map[string]bool, why string) State {
	if len(keys) == 0 {
		return st
	}
	n := make(map[string]Term, len(st.m)+len(keys))
	for a, b := range st.m {
		n[a] = b
	}
	if keys["G|closed*"] {
		// a channel of unknown origin is closed somewhere in the callee: every per-field record may change
		keys2 := map[string]bool{}
		for k := range keys {
			if k != "G|closed*" {
				keys2[k] = true
			}
		}
		for k := range ex.keySort {
			if strings.HasPrefix(k, "G|closed|") {
				keys2[k] = true
			}
		}
		for k := range st.m {
			if strings.HasPrefix(k, "G|closed|") {
				keys2[k] = true
			}
		}
		keys = keys2
	}
	for _, k := range sortedKeys(keys) {
		so, ok := ex.keySort[k]
		if !ok {
			// never read so far, so its sort is unknown: leave a token that becomes a fresh
			// array at the first read (the pre-state keeps the initial version, which old() may
			// still refer to)
			ex.nLazy++
			n[k] = Term{S: fmt.Sprintf("?hv%d", ex.nLazy)}
			continue
		}
		n[k] = ex.vc.fresh("hv_"+shortKey(k), so)
		ex.heapAllocatedBefore(n[k], ex.nLoc)
	}
	return State{n}
}

func (ex *Exec) havocCall(fr *Frame, instr ssa.CallInstruction, c *ssa.CallCommon, pc Term, st State, resT types.Type) (State, Term, bool) {
	if c.IsInvoke() {
		for _, d := range ex.g.cs.Dyn {
			if d.Pure && dynMatches(d, c.Value.Type(), c.Method.Name()) {
				// assumed: the method writes nothing and its result depends only on the receiver
				ex.assumed[fmt.Sprintf("dynamic calls to %s are pure functions of the receiver (%s)", d.Method, d.Why)] = true
				rs := c.Signature().Results()
				if rs.Len() != 1 {
					break
				}
				so := ex.te.sortOf(rs.At(0).Type())
				fname := "dyn_" + sanitize(d.Method)
				if !ex.ufunUsed[fname] {
					ex.ufunUsed[fname] = true
					ex.ufunDecl = append(ex.ufunDecl, fmt.Sprintf("(declare-fun %s (Iface) %s)", fname, so))
				}
				r := ex.vc.def("dyn", app(so, fname, ex.val(fr, c.Value)))
				ex.assumeType(pc, r, rs.At(0).Type())
				return st, r, false
			}
		}
	}
	keys := ex.g.siteFrame(instr)
	name := "dynamic"
	if callee := c.StaticCallee(); callee != nil {
		name = shortID(fnID(callee))
	} else if c.IsInvoke() {
		name = "invoke " + c.Method.Name()
		// assumed dyncall specs
		recvT := c.Value.Type()
		for _, d := range ex.g.cs.Dyn {
			if dynMatches(d, recvT, c.Method.Name()) {
				for _, p := range d.Preserves {
					for _, k := range ex.g.keysOfFieldSpec(d.Pkg, p) {
						if keys[k] {
							delete(keys, k)
							ex.assumed[fmt.Sprintf("dynamic calls to %s preserve %s (%s)", d.Method, p, d.Why)] = true
						}
					}
				}
			}
		}
	} else {
		// call through a function value: callbacks known by CHA
	}
	if len(keys) > 0 {
		ex.vc.note(fmt.Sprintf("call %s: havoc of %d heap keys by inferred frame", name, len(keys)))
	}
	before := st
	st = ex.havocKeys(st, keys, name)
	if ex.callbackModelled {
		ex.preserveLocals(fr, pc, before, st, keys, nil)
	} else {
		ex.preserveLocals(fr, pc, before, st, keys, c)
	}
	st = ex.havocPointedLocals(fr, c, st)
	var res Term
	if resT != nil {
		if tt, ok := resT.(*types.Tuple); ok {
			if tt.Len() == 1 {
				res = ex.freshTyped(pc, "call", tt.At(0).Type())
			} else if tt.Len() > 1 {
				res = ex.freshTyped(pc, "call", tt)
			}
		} else {
			res = ex.freshTyped(pc, "call", resT)
		}
	}
	return st, res, false
}

// havocPointedLocals: a callee that is not executed inline received a pointer
// to a non-escaping local; the whole local becomes unknown.
func (ex *Exec) havocPointedLocals(fr *Frame, c *ssa.CallCommon, st State) State {
	if !c.IsInvoke() {
		if _, static := c.Value.(*ssa.Function); !static {
			if v := ex.val(fr, c.Value); v.Clo != nil {
				// a function literal that is not executed inline: every tracked local it captured is unknown
				for _, a := range v.Clo.BindAddr {
					if a == nil || a.Local == nil {
						continue
					}
					lv := a.Local
					nv := ex.vc.fresh("hv_"+lv.Name, ex.te.sortOf(lv.T))
					ex.assumeTypeDeep(nv, lv.T)
					st = st.with(lv.Key, nv)
					ex.outsideSubset("local " + lv.Name + " is captured by a function literal that is not executed inline")
				}
			} else if _, isBuiltin := c.Value.(*ssa.Builtin); !isBuiltin && closureOf(c.Value) != nil {
				ex.outsideSubset("call of a function literal whose value was lost")
			}
		}
	}
	for _, a := range c.Args {
		t := ex.val(fr, a)
		if t.Lost {
			ex.outsideSubset("merged pointer to local passed to a call")
		}
		if t.LAddr == nil || t.LAddr.Local == nil {
			continue
		}
		lv := t.LAddr.Local
		v := ex.vc.fresh("hv_"+lv.Name, ex.te.sortOf(lv.T))
		ex.assumeTypeDeep(v, lv.T)
		st = st.with(lv.Key, v)
		ex.outsideSubset("address of local " + lv.Name + " passed to a call that is not executed inline")
	}
	return st
}

func dynMatches(d *DynSpec, recv types.Type, method string) bool {
	i := strings.LastIndex(d.Method, ".")
	if i < 0 || d.Method[i+1:] != method {
		return false
	}
	tn := d.Method[:i]
	k := typeKey(recv)
	return k == d.Pkg+"."+tn || k == tn || strings.HasSuffix(k, "/"+tn) || strings.HasSuffix(k, "."+tn)
}

// keysOfFieldSpec maps "Type.field" to heap keys.
func (g *Global) keysOfFieldSpec(pkg, spec string) []string {
	i := strings.LastIndex(spec, ".")
	if i < 0 {
		return nil
	}
	tn, fn := spec[:i], spec[i+1:]
	t := g.lookupType(tn)
	if t == nil {
		t = g.lookupType(strings.TrimPrefix(pkg, modPrefix) + "." + tn)
	}
	if t == nil {
		return nil
	}
	st, ok := t.Underlying().(*types.Struct)
	if !ok {
		return nil
	}
	for j := 0; j < st.NumFields(); j++ {
		if st.Field(j).Name() == fn {
			ft := st.Field(j).Type()
			out := map[string]bool{}
			if scalarType(ft) {
				if g.cellMode[fmt.Sprintf("%s#%d", typeKey(t), j)] {
					out[cellKey(ft)] = true
				} else {
					out[fieldKey(typeKey(t), j)] = true
				}
			} else {
				g.leafKeys(ft, out)
			}
			return sortedKeys(out)
		}
	}
	return nil
}

// callContract: assert requires, havoc frame, assume ensures.
func (ex *Exec) callContract(fr *Frame, instr ssa.CallInstruction, callee *ssa.Function, fc *FuncContract, c *ssa.CallCommon, args []Term, pc Term, st State, resT types.Type) (State, Term, bool) {
	ex.calls[fc.ID] = true
	fr2 := ex.newFrame(callee, nil)
	fr2.allocBy = map[string][]*ssa.Alloc{}
	for i, p := range callee.Params {
		if i < len(args) {
			fr2.params[p.Name()] = args[i]
		}
	}
	if clo := ex.curClo; clo != nil && clo.Fn == callee {
		// the callee's contract may name the variables it captured
		for i, fv := range callee.FreeVars {
			if i < len(clo.Bindings) {
				fr2.vals[fv] = clo.Bindings[i]
				fr2.addrs[fv] = clo.BindAddr[i]
			}
		}
	}
	ex.curClo = nil
	short := shortID(fc.ID)
	fr.callN[short]++
	n := fr.callN[short]
	for _, rq := range fc.Requires {
		if ex.fc != nil && ex.fc.SitesOnly {
			ex.assumed[fmt.Sprintf("%s: precondition %s of %s is not discharged at the call (only the site clauses of this function are claimed: %s)", ex.fnID, rq.Label, short, ex.fc.SitesOnlyWhy)] = true
			continue
		}
		se := ex.newSpecEnv(fr2, pc, st, st)
		se.entryPar = true
		goal, err := se.evalBool(rq.E)
		o := &Obligation{ID: fmt.Sprintf("%s#pre.%s.%s@%d", ex.fnID, short, rq.Label, n), Func: ex.fnID, Kind: "pre", Props: rq.Props, Where: posOf(fr.fn, instr.Pos())}
		if err != nil {
			o.Detail = "spec error: " + err.Error()
			goal = tFalse
		}
		ex.vc.oblige(o, pc, ex.vc.def("pre", goal))
	}
	pre := st
	// ghost variables of the callee's contract: known by sort here, so that the frame havoc
	// below gives them a fresh value the callee's ensures can constrain
	for _, gs := range fc.Sites {
		if gs.Kind == "ghost-after" {
			k := "G|" + gs.C.Label
			if _, known := ex.keySort[k]; !known {
				ex.keySort[k] = Sort(gs.Why)
			}
		}
	}
	if !fc.Pure {
		keys := ex.g.siteFrame(instr)
		st = ex.havocKeys(st, keys, short)
		ex.preserveLocals(fr, pc, pre, st, keys, c)
		st = ex.havocPointedLocals(fr, c, st)
	}
	var res Term
	var results []Term
	if resT != nil {
		if tt, ok := resT.(*types.Tuple); ok {
			for i := 0; i < tt.Len(); i++ {
				results = append(results, ex.freshTyped(pc, "res_"+callee.Name(), tt.At(i).Type()))
			}
		} else {
			results = []Term{ex.freshTyped(pc, "res_"+callee.Name(), resT)}
		}
	}
	switch len(results) {
	case 0:
	case 1:
		res = results[0]
	default:
		res = Term{Tuple: results}
	}
	for _, en := range fc.Ensures {
		se := ex.newSpecEnv(fr2, pc, st, pre)
		se.entryPar = true
		ex.bindResults(se, callee, results)
		fact, err := se.evalBool(en.E)
		if err != nil {
			ex.vc.note(fmt.Sprintf("ensures %s of %s not usable at call site: %v", en.Label, short, err))
			continue
		}
		ex.vc.assume(pc, ex.vc.def("post", fact), "ensures "+short+"#"+en.Label)
	}
	if fc.Trusted {
		ex.assumed["trusted contract of "+short+": "+fc.TrustWhy] = true
	}
	return st, res, false
}

func (ex *Exec) bindResults(se *SpecEnv, fn *ssa.Function, results []Term) {
	rs := fn.Signature.Results()
	for i := 0; i < rs.Len() && i < len(results); i++ {
		v := SVal{T: results[i], Ty: rs.At(i).Type()}
		se.vars[fmt.Sprintf("result%d", i)] = v
		if i == 0 {
			se.vars["result"] = v
		}
		if n := rs.At(i).Name(); n != "" && n != "_" {
			se.vars[n] = v
		}
	}
}

// ---------- builtins ----------

func (ex *Exec) builtin(fr *Frame, instr ssa.CallInstruction, bi *ssa.Builtin, c *ssa.CallCommon, pc Term, st State) (State, Term, bool) {
	args := ex.argTerms(fr, c)
	switch bi.Name() {
	case "len", "cap":
		x := args[0]
		switch xt := c.Args[0].Type().Underlying().(type) {
		case *types.Slice:
			if bi.Name() == "len" {
				return st, sLen(x), false
			}
			return st, sCap(x), false
		case *types.Basic:
			return st, app(SInt, "strlen", x), false
		case *types.Map:
			_, _, ln := ex.mapArrays(st, c.Args[0].Type(), x)
			return st, ln, false
		case *types.Array:
			return st, intLit(xt.Len()), false
		case *types.Pointer:
			if arr, ok := xt.Elem().Underlying().(*types.Array); ok {
				return st, intLit(arr.Len()), false
			}
		case *types.Chan:
			r := ex.vc.fresh("chanlen", SInt)
			ex.vc.assume(tTrue, app(SBool, "<=", intLit(0), r), "chan len")
			return st, r, false
		}
	case "min", "max":
		op := "<="
		if bi.Name() == "max" {
			op = ">="
		}
		acc := args[0]
		if acc.Sort == SInt {
			for _, a := range args[1:] {
				acc = ite(app(SBool, op, acc, a), acc, a)
			}
			return st, ex.vc.def(bi.Name(), acc), false
		}
	case "append":
		return ex.doAppend(fr, instr, c, args, pc, st)
	case "copy":
		return ex.doCopy(fr, c, args, pc, st)
	case "delete":
		return ex.mapDelete(st, c.Args[0].Type(), args[0], args[1]), Term{}, false
	case "close":
		// closed-ness is tracked per struct field that holds the channel (and in a generic key
		// for channels that are not loaded from a field)
		key := closedKeyOf(c.Args[0])
		h := ex.get(st, key, arraySort(SRef, SBool))
		ex.safetyObl(fr, "close", instr.Pos(), pc, not(sel(h, args[0], SBool)), "close of closed channel")
		st = st.with(key, ex.vc.def("closed", sto(h, args[0], tTrue)))
		if key == "G|closed" {
			// unknown origin: it may be the channel held in any field
			keys := map[string]bool{}
			for k := range ex.keySort {
				if strings.HasPrefix(k, "G|closed|") {
					keys[k] = true
				}
			}
			st = ex.havocKeys(st, keys, "close of untracked channel")
		} else {
			ex.assumed["a channel held in a struct field is closed only through that field (closed-ness is tracked per field)"] = true
		}
		return st, Term{}, false
	case "print", "println":
		return st, Term{}, false
	case "ssa:deferstack":
		return st, intLit(0), false
	case "clear":
		if _, ok := c.Args[0].Type().Underlying().(*types.Map); ok {
			keys := map[string]bool{}
			for _, k := range mapKeys(c.Args[0].Type()) {
				keys[k] = true
			}
			return ex.havocKeys(st, keys, "clear"), Term{}, false
		}
		if sl, ok := c.Args[0].Type().Underlying().(*types.Slice); ok {
			// clear(s): every scalar leaf of every element of s becomes its zero value, nothing else changes
			d := args[0]
			scalar := true
			for _, lf := range ex.leaves(sl.Elem()) {
				if lf.so != SInt && lf.so != SBool {
					scalar = false
				}
			}
			if scalar {
				for _, lf := range ex.leaves(sl.Elem()) {
					so := arraySort(SRef, lf.so)
					h := ex.get(st, lf.key, so)
					nh := ex.vc.fresh("H_"+shortKey(lf.key), so)
					zero := "0"
					if lf.so == SBool {
						zero = "false"
					}
					dst := lf.addr(fmt.Sprintf("(at %s i)", d.S))
					ex.vc.assume(pc, T(fmt.Sprintf("(forall ((i Int)) (! (=> (and (<= 0 i) (< i %s)) (= (select %s %s) %s)) :pattern ((select %s %s))))",
						sLen(d).S, nh.S, dst, zero, nh.S, dst), SBool), "clear: cleared elements")
					name := ex.inSliceCells(lf, d, sLen(d))
					ex.vc.assume(pc, T(fmt.Sprintf("(forall ((r Ref)) (! (=> (not (%s r)) (= (select %s r) (select %s r))) :pattern ((select %s r))))", name, nh.S, h.S, nh.S), SBool), "clear: frame")
					st = st.with(lf.key, nh)
				}
				return st, Term{}, false
			}
		}
	}
	ex.unsupported("builtin " + bi.Name())
	keys := map[string]bool{}
	ex.g.instrWrites(instr, keys, false)
	st = ex.havocKeys(st, keys, bi.Name())
	if v := instr.Value(); v != nil {
		return st, ex.freshTyped(pc, bi.Name(), v.Type()), false
	}
	return st, Term{}, false
}

// leafAccess enumerates (key, sort, address-builder) for every scalar leaf of
// an element of type t located at address expression addr(i).
type leafAcc struct {
	key  string
	so   Sort
	addr func(base string) string
}

func (ex *Exec) leaves(t types.Type) []leafAcc {
	var out []leafAcc
	var rec func(t types.Type, wrap func(string) string)
	rec = func(t types.Type, wrap func(string) string) {
		if isStruct(t) {
			stt := t.Underlying().(*types.Struct)
			sk := typeKey(t)
			for i := 0; i < stt.NumFields(); i++ {
				ft := stt.Field(i).Type()
				fid := ex.te.fid(sk, i)
				if scalarType(ft) {
					if ex.g.cellMode[fmt.Sprintf("%s#%d", sk, i)] {
						out = append(out, leafAcc{cellKey(ft), ex.te.sortOf(ft), func(b string) string { return fmt.Sprintf("(fld %s %d)", wrap(b), fid) }})
					} else {
						out = append(out, leafAcc{fieldKey(sk, i), ex.te.sortOf(ft), wrap})
					}
					continue
				}
				if isStruct(ft) {
					rec(ft, func(b string) string { return fmt.Sprintf("(fld %s %d)", wrap(b), fid) })
				}
				// arrays inside elements are not tracked element-wise here
			}
			return
		}
		if _, ok := isArray(t); ok {
			return
		}
		out = append(out, leafAcc{cellKey(t), ex.te.sortOf(t), wrap})
	}
	rec(t, func(b string) string { return b })
	return out
}

func (ex *Exec) doAppend(fr *Frame, instr ssa.CallInstruction, c *ssa.CallCommon, args []Term, pc Term, st State) (State, Term, bool) {
	s, t := args[0], args[1]
	var el types.Type
	if sl, ok := c.Args[0].Type().Underlying().(*types.Slice); ok {
		el = sl.Elem()
	} else {
		return ex.havocCall(fr, instr, c, pc, st, instr.Value().Type())
	}
	nst, r := ex.appendCore(pc, st, s, t, el)
	return nst, r, false
}

// appendCore: the semantics of append(s, t...) for element type el: in place when
// the capacity suffices, otherwise into a fresh allocation.
// atomSlice: a slice term that is to appear inside quantifier patterns must be a constant
// (solvers reject patterns containing if-then-else, and define-fun names are expanded before
// patterns are read): a compound term is replaced by a fresh constant equal to it.
func (ex *Exec) atomSlice(t Term) Term {
	if t.Sort != SSlice || !strings.Contains(t.S, "(") {
		if t.Sort != SSlice || !ex.vc.isDefined(t.S) {
			return t
		}
	}
	c := ex.vc.fresh("sl", SSlice)
	ex.vc.assume(tTrue, eq(c, t), "name for a slice value used in patterns")
	return c
}

func (ex *Exec) appendCore(pc Term, st State, s, t Term, el types.Type) (State, Term) {
	s = ex.atomSlice(s)
	if t.Sort == SSlice {
		t = ex.atomSlice(t)
	}
	var tl Term
	if t.Sort == SStr {
		tl = app(SInt, "strlen", t)
	} else {
		tl = sLen(t)
	}
	ex.nLoc++
	nb := refLoc(ex.nLoc)
	newLen := ex.vc.def("applen", app(SInt, "+", sLen(s), tl))
	inPlace := ex.vc.def("inplace", app(SBool, "<=", newLen, sCap(s)))
	ncap := ex.vc.fresh("newcap", SInt)
	ex.vc.assume(tTrue, app(SBool, ">=", ncap, newLen), "append capacity")
	r := ex.vc.fresh("appended", SSlice)
	ex.vc.assume(tTrue, eq(r, ite(inPlace, mkSlice(sBase(s), sOff(s), newLen, sCap(s)), mkSlice(nb, intLit(0), newLen, ncap))), "append result")
	if t.Sort == SStr {
		keys := map[string]bool{cellKey(el): true}
		return ex.havocKeys(st, keys, "append string"), r
	}
	for _, lf := range ex.leaves(el) {
		so := arraySort(SRef, lf.so)
		h := ex.get(st, lf.key, so)
		nh := ex.vc.fresh("H_"+shortKey(lf.key), so)
		// element addresses are written with the arithmetic-free `at` function so that the
		// patterns below match the terms produced by indexing and by specifications
		dst := func(i string) string { return lf.addr(fmt.Sprintf("(at %s %s)", r.S, i)) }
		srcOld := func(i string) string { return lf.addr(fmt.Sprintf("(at %s %s)", s.S, i)) }
		srcNew := func(j string) string { return lf.addr(fmt.Sprintf("(at %s %s)", t.S, j)) }
		// appended elements (k is the index in the result)
		ex.vc.assume(pc, T(fmt.Sprintf("(forall ((k Int)) (! (=> (and (<= %s k) (< k %s)) (= (select %s %s) (select %s %s))) :pattern ((select %s %s))))",
			sLen(s).S, newLen.S, nh.S, dst("k"), h.S, srcNew("(- k "+sLen(s).S+")"), nh.S, dst("k")), SBool), "append: new elements")
		// old elements
		ex.vc.assume(pc, T(fmt.Sprintf("(forall ((i Int)) (! (=> (and (<= 0 i) (< i %s)) (= (select %s %s) (select %s %s))) :pattern ((select %s %s))))",
			sLen(s).S, nh.S, dst("i"), h.S, srcOld("i"), nh.S, dst("i")), SBool), "append: old elements")
		// frame: everything outside the result's index range [0,newLen) of its base is unchanged
		ex.vc.assume(pc, T(fmt.Sprintf("(forall ((r Ref)) (! (=> (not (%s r)) (= (select %s r) (select %s r))) :pattern ((select %s r))))",
			ex.inResultRange(lf, r, sLen(s), newLen, nb, inPlace), nh.S, h.S, nh.S), SBool), "append: frame")
		st = st.with(lf.key, nh)
	}
	return st, r
}

// inResultRange emits (and names) a predicate Ref->Bool that is true for the
// cells append may have written for the given leaf.
func (ex *Exec) inResultRange(lf leafAcc, r, oldLen, newLen, nb, inPlace Term) string {
	ex.vc.n++
	name := fmt.Sprintf("inapp!%d", ex.vc.n)
	// find the element address inside r: walk up fld wrappers
	depthProbe := lf.addr("X")
	up := "r"
	cnt := strings.Count(depthProbe, "(fld ")
	conds := []string{}
	for i := 0; i < cnt; i++ {
		conds = append(conds, fmt.Sprintf("((_ is fld) %s)", up))
		up = fmt.Sprintf("(fparent %s)", up)
	}
	conds = append(conds, fmt.Sprintf("((_ is elem) %s)", up))
	// the cell must be exactly the leaf path applied to its element
	conds = append(conds, fmt.Sprintf("(= r %s)", lf.addr(up)))
	conds = append(conds, fmt.Sprintf("(= (ebase %s) %s)", up, sBase(r).S))
	// in place: only [oldLen,newLen) ; reallocated: the whole fresh object
	idx := fmt.Sprintf("(- (eidx %s) %s)", up, sOff(r).S)
	conds = append(conds, fmt.Sprintf("(or (not %s) (and (<= %s %s) (< %s %s)))", inPlace.S, oldLen.S, idx, idx, newLen.S))
	ex.vc.decls = append(ex.vc.decls, fmt.Sprintf("(define-fun %s ((r Ref)) Bool (and %s))", name, strings.Join(conds, " ")))
	return name
}

func (ex *Exec) doCopy(fr *Frame, c *ssa.CallCommon, args []Term, pc Term, st State) (State, Term, bool) {
	d, s := args[0], args[1]
	sl, ok := c.Args[0].Type().Underlying().(*types.Slice)
	if !ok {
		return st, ex.vc.fresh("copy", SInt), false
	}
	var srcLen Term
	if s.Sort == SStr {
		srcLen = app(SInt, "strlen", s)
	} else {
		srcLen = sLen(s)
	}
	n := ex.vc.def("copied", ite(app(SBool, "<=", sLen(d), srcLen), sLen(d), srcLen))
	el := sl.Elem()
	if s.Sort == SStr {
		return ex.havocKeys(st, map[string]bool{cellKey(el): true}, "copy from string"), n, false
	}
	for _, lf := range ex.leaves(el) {
		so := arraySort(SRef, lf.so)
		h := ex.get(st, lf.key, so)
		nh := ex.vc.fresh("H_"+shortKey(lf.key), so)
		dst := func(i string) string { return lf.addr(fmt.Sprintf("(at %s %s)", d.S, i)) }
		src := func(i string) string { return lf.addr(fmt.Sprintf("(at %s %s)", s.S, i)) }
		ex.vc.assume(pc, T(fmt.Sprintf("(forall ((i Int)) (! (=> (and (<= 0 i) (< i %s)) (= (select %s %s) (select %s %s))) :pattern ((select %s %s))))",
			n.S, nh.S, dst("i"), h.S, src("i"), nh.S, dst("i")), SBool), "copy: copied elements")
		// frame
		ex.vc.n++
		name := fmt.Sprintf("incopy!%d", ex.vc.n)
		probe := lf.addr("X")
		up := "r"
		conds := []string{}
		for i := 0; i < strings.Count(probe, "(fld "); i++ {
			conds = append(conds, fmt.Sprintf("((_ is fld) %s)", up))
			up = fmt.Sprintf("(fparent %s)", up)
		}
		conds = append(conds, fmt.Sprintf("((_ is elem) %s)", up), fmt.Sprintf("(= r %s)", lf.addr(up)), fmt.Sprintf("(= (ebase %s) %s)", up, sBase(d).S))
		idx := fmt.Sprintf("(- (eidx %s) %s)", up, sOff(d).S)
		conds = append(conds, fmt.Sprintf("(<= 0 %s)", idx), fmt.Sprintf("(< %s %s)", idx, n.S))
		ex.vc.decls = append(ex.vc.decls, fmt.Sprintf("(define-fun %s ((r Ref)) Bool (and %s))", name, strings.Join(conds, " ")))
		ex.vc.assume(pc, T(fmt.Sprintf("(forall ((r Ref)) (! (=> (not (%s r)) (= (select %s r) (select %s r))) :pattern ((select %s r))))", name, nh.S, h.S, nh.S), SBool), "copy: frame")
		st = st.with(lf.key, nh)
	}
	return st, n, false
}

// ---------- maps ----------

func (ex *Exec) mapArrays(st State, mt types.Type, m Term) (dom, val, ln Term) {
	u := mt.Underlying().(*types.Map)
	ks, vs := ex.te.sortOf(u.Key()), ex.te.sortOf(u.Elem())
	k := typeKey(u)
	d := ex.get(st, "MD|"+k, arraySort(SRef, arraySort(ks, SBool)))
	v := ex.get(st, "MV|"+k, arraySort(SRef, arraySort(ks, vs)))
	l := ex.get(st, "ML|"+k, arraySort(SRef, SInt))
	ln = sel(l, m, SInt)
	ex.vc.assume(tTrue, and(app(SBool, "<=", intLit(0), ln), app(SBool, "<=", ln, T("281474976710656", SInt))), "map len between 0 and 2^48")
	return sel(d, m, arraySort(ks, SBool)), sel(v, m, arraySort(ks, vs)), ln
}

func (ex *Exec) mapInit(st State, mt types.Type, m Term) State {
	u := mt.Underlying().(*types.Map)
	ks := ex.te.sortOf(u.Key())
	k := typeKey(u)
	dso := arraySort(SRef, arraySort(ks, SBool))
	d := ex.get(st, "MD|"+k, dso)
	l := ex.get(st, "ML|"+k, arraySort(SRef, SInt))
	st = st.with("MD|"+k, ex.vc.def("MD", sto(d, m, T(fmt.Sprintf("((as const %s) false)", arraySort(ks, SBool)), arraySort(ks, SBool)))))
	st = st.with("ML|"+k, ex.vc.def("ML", sto(l, m, intLit(0))))
	return st
}

func (ex *Exec) doLookup(fr *Frame, in *ssa.Lookup, pc Term, st State) Term {
	mt, ok := in.X.Type().Underlying().(*types.Map)
	if !ok {
		return ex.freshTyped(pc, in.Name(), in.Type())
	}
	m := ex.val(fr, in.X)
	k := ex.val(fr, in.Index)
	dom, val, _ := ex.mapArrays(st, in.X.Type(), m)
	vs := ex.te.sortOf(mt.Elem())
	present := ex.vc.def("present", sel(dom, k, SBool))
	v := ex.vc.def(in.Name(), ite(present, sel(val, k, vs), ex.te.zero(mt.Elem())))
	ex.assumeType(pc, v, mt.Elem())
	if in.CommaOk {
		return Term{Tuple: []Term{v, present}}
	}
	return v
}

func (ex *Exec) doMapUpdate(fr *Frame, in *ssa.MapUpdate, pc Term, st State) State {
	mt := in.Map.Type().Underlying().(*types.Map)
	m := ex.val(fr, in.Map)
	k := ex.val(fr, in.Key)
	v := ex.val(fr, in.Value)
	ks, vs := ex.te.sortOf(mt.Key()), ex.te.sortOf(mt.Elem())
	key := typeKey(mt)
	dso, vso := arraySort(SRef, arraySort(ks, SBool)), arraySort(SRef, arraySort(ks, vs))
	d := ex.get(st, "MD|"+key, dso)
	va := ex.get(st, "MV|"+key, vso)
	l := ex.get(st, "ML|"+key, arraySort(SRef, SInt))
	dm := sel(d, m, arraySort(ks, SBool))
	st = st.with("ML|"+key, ex.vc.def("ML", sto(l, m, app(SInt, "+", sel(l, m, SInt), ite(sel(dm, k, SBool), intLit(0), intLit(1))))))
	st = st.with("MD|"+key, ex.vc.def("MD", sto(d, m, sto(dm, k, tTrue))))
	st = st.with("MV|"+key, ex.vc.def("MV", sto(va, m, sto(sel(va, m, arraySort(ks, vs)), k, v))))
	return st
}

func (ex *Exec) mapDelete(st State, t types.Type, m, k Term) State {
	mt := t.Underlying().(*types.Map)
	ks := ex.te.sortOf(mt.Key())
	key := typeKey(mt)
	d := ex.get(st, "MD|"+key, arraySort(SRef, arraySort(ks, SBool)))
	l := ex.get(st, "ML|"+key, arraySort(SRef, SInt))
	dm := sel(d, m, arraySort(ks, SBool))
	st = st.with("ML|"+key, ex.vc.def("ML", sto(l, m, app(SInt, "-", sel(l, m, SInt), ite(sel(dm, k, SBool), intLit(1), intLit(0))))))
	st = st.with("MD|"+key, ex.vc.def("MD", sto(d, m, sto(dm, k, tFalse))))
	return st
}

// ---------- sync/atomic ----------

func (ex *Exec) atomicModel(fr *Frame, callee *ssa.Function, c *ssa.CallCommon, args []Term, pc Term, st State) (State, Term, bool) {
	pkg := fnPkgPath(callee)
	name := callee.Name()
	if pkg == "sync" {
		switch name {
		case "Lock", "Unlock", "RLock", "RUnlock", "Add", "Done", "Wait", "TryLock":
			if name == "TryLock" {
				return st, ex.vc.fresh("trylock", SBool), true
			}
			return st, Term{}, true
		}
		return st, Term{}, false
	}
	if len(c.Args) == 0 {
		return st, Term{}, false
	}
	pt, ok := c.Args[0].Type().Underlying().(*types.Pointer)
	if !ok {
		return st, Term{}, false
	}
	el := pt.Elem()
	a := ex.addrOf(fr, c.Args[0])
	so := ex.te.sortOf(el)
	if so != SInt && so != SBool && so != SRef {
		return st, Term{}, false
	}
	cur := func() Term {
		v := ex.vc.def("atomic", ex.load(st, pc, a, el))
		ex.assumeType(pc, v, el)
		return v
	}
	switch {
	case name == "Load" || strings.HasPrefix(name, "Load"):
		return st, cur(), true
	case name == "Store" || strings.HasPrefix(name, "Store"):
		return ex.store(st, pc, a, el, args[1]), Term{}, true
	case name == "Add" || strings.HasPrefix(name, "Add"):
		nv := ex.vc.def("atomicadd", wrap1(app(SInt, "+", cur(), args[1]), el))
		return ex.store(st, pc, a, el, nv), nv, true
	case name == "Swap" || strings.HasPrefix(name, "Swap"):
		old := cur()
		return ex.store(st, pc, a, el, args[1]), old, true
	case name == "CompareAndSwap" || strings.HasPrefix(name, "CompareAndSwap"):
		old := cur()
		okT := ex.vc.def("cas", eq(old, args[1]))
		return ex.store(st, pc, a, el, ite(okT, args[2], old)), okT, true
	}
	return st, Term{}, false
}

// ---------- loops ----------

type loopCtx struct {
	headSt   State
	variants []Term
}

func (ex *Exec) loopSpec(fr *Frame, li *loopInfo) *LoopSpec {
	id := fnID(fr.fn)
	if fc := ex.g.cs.Funcs[id]; fc != nil {
		return fc.Loops[li.ordinal]
	}
	return nil
}

var loopCtxs = map[string]*loopCtx{}

func (ex *Exec) loopKey(fr *Frame, li *loopInfo) string {
	return fmt.Sprintf("%p|%d|%d", ex, fr.inst, li.header.Index)
}

// loopWrites: keys written inside the loop body (locals and heap).
func (ex *Exec) loopWrites(fr *Frame, li *loopInfo) (heap map[string]bool, locals map[*ssa.Alloc]bool) {
	heap = map[string]bool{}
	locals = map[*ssa.Alloc]bool{}
	for b := range li.body {
		for _, in := range b.Instrs {
			ex.instrHeapWrites(in, fr.escapes, nil, heap, 0)
			switch in := in.(type) {
			case *ssa.Store:
				if al, ok := addrRoot(in.Addr).(*ssa.Alloc); ok && !fr.escapes[al] {
					locals[al] = true
				}
			case *ssa.Alloc:
				if !fr.escapes[in] {
					locals[in] = true
				}
			case ssa.CallInstruction:
				if _, isGo := in.(*ssa.Go); isGo {
					continue
				}
				// tracked locals reached by the call: through a pointer argument, or through the
				// free variables of a function literal called here
				c := in.Common()
				for _, a := range c.Args {
					if _, isPtr := a.Type().Underlying().(*types.Pointer); !isPtr {
						continue
					}
					if al, ok := addrRoot(a).(*ssa.Alloc); ok && !fr.escapes[al] {
						locals[al] = true
					}
				}
				if mc := closureOf(c.Value); mc != nil {
					if cfn, ok := mc.Fn.(*ssa.Function); ok {
						for i, b := range mc.Bindings {
							al, ok := addrRoot(b).(*ssa.Alloc)
							if !ok || fr.escapes[al] {
								continue
							}
							if i >= len(cfn.FreeVars) || writtenThrough(cfn.FreeVars[i], map[ssa.Value]bool{}) {
								locals[al] = true
							}
						}
					}
				}
			}
		}
	}
	// a local whose address is kept in another local is written by stores and calls that
	// go through a load of that copy
	for al, aliases := range spilledAllocs(fr.fn) {
		if fr.escapes[al] || locals[al] {
			continue
		}
		for b := range li.body {
			for _, in := range b.Instrs {
				switch in := in.(type) {
				case *ssa.Store:
					if aliases[addrRoot(in.Addr)] {
						locals[al] = true
					}
				case ssa.CallInstruction:
					for _, a := range in.Common().Args {
						if aliases[addrRoot(a)] {
							locals[al] = true
						}
					}
				}
			}
		}
	}
	return
}

// instrHeapWrites adds the heap keys one instruction may write. esc is the
// escape set of the function the instruction belongs to; tracked holds the
// free variables of that function that are bound to tracked locals of an
// enclosing function (stores through them are local writes, not heap writes).
func (ex *Exec) instrHeapWrites(in ssa.Instruction, esc map[*ssa.Alloc]bool, tracked map[ssa.Value]bool, heap map[string]bool, depth int) {
	switch in := in.(type) {
	case *ssa.Store:
		root := addrRoot(in.Addr)
		if al, ok := root.(*ssa.Alloc); ok && !esc[al] {
			return
		}
		if tracked[root] {
			return
		}
		ex.g.keysForStore(in.Addr, in.Val.Type(), heap)
	case *ssa.Alloc:
		if esc[in] {
			el := in.Type().Underlying().(*types.Pointer).Elem()
			ex.g.leafKeys(el, heap)
		}
	case *ssa.MakeInterface:
		if ex.te.sortOf(in.X.Type()) != SRef {
			ex.g.leafKeys(in.X.Type(), heap)
		}
	case *ssa.MapUpdate:
		for _, k := range mapKeys(in.Map.Type()) {
			heap[k] = true
		}
	case *ssa.MakeMap:
		for _, k := range mapKeys(in.Type()) {
			heap[k] = true
		}
	case ssa.CallInstruction:
		if _, isGo := in.(*ssa.Go); isGo {
			return
		}
		for _, s := range ex.siteSpecs("ghost-after") {
			if contains(calleeNames(in.Common()), s.Target) {
				heap["G|"+s.C.Label] = true
			}
		}
		c := in.Common()
		if mc := closureOf(c.Value); mc != nil && depth < 4 {
			if cfn, ok := mc.Fn.(*ssa.Function); ok && inlinableLiteral(cfn) && onlyCalled(mc) {
				// executed inline: its writes through captured tracked locals are local writes
				sub := map[ssa.Value]bool{}
				for i, b := range mc.Bindings {
					if i >= len(cfn.FreeVars) {
						break
					}
					root := addrRoot(b)
					if al, ok := root.(*ssa.Alloc); ok && !esc[al] {
						sub[cfn.FreeVars[i]] = true
					} else if tracked[root] {
						sub[cfn.FreeVars[i]] = true
					}
				}
				cesc := escapingAllocs(cfn)
				for _, b := range cfn.Blocks {
					for _, cin := range b.Instrs {
						ex.instrHeapWrites(cin, cesc, sub, heap, depth+1)
					}
				}
				return
			}
		}
		for k := range ex.g.siteFrame(in) {
			heap[k] = true
		}
	}
}

// closureOf: the function literal a call's callee value denotes, directly or
// through the once-assigned local variable holding it.
func closureOf(v ssa.Value) *ssa.MakeClosure {
	if mc, ok := v.(*ssa.MakeClosure); ok {
		return mc
	}
	u, ok := v.(*ssa.UnOp)
	if !ok || u.Op != token.MUL {
		return nil
	}
	dst, ok := u.X.(*ssa.Alloc)
	if !ok || dst.Referrers() == nil {
		return nil
	}
	var found *ssa.MakeClosure
	for _, r := range *dst.Referrers() {
		if st, ok := r.(*ssa.Store); ok && st.Addr == dst {
			mc, ok := st.Val.(*ssa.MakeClosure)
			if !ok || found != nil {
				return nil
			}
			found = mc
		}
	}
	return found
}

// parentLocalsWritten: tracked locals of enclosing frames that this (inlined)
// function may write through its pointer parameters or free variables.
func (ex *Exec) parentLocalsWritten(fr *Frame) []*LocalVar {
	var out []*LocalVar
	if fr.parent == nil {
		return nil
	}
	add := func(v ssa.Value) {
		if a, ok := fr.addrs[v]; ok && a != nil && a.Local != nil && writtenThrough(v, map[ssa.Value]bool{}) {
			out = append(out, a.Local)
		}
	}
	for _, p := range fr.fn.Params {
		add(p)
	}
	for _, fv := range fr.fn.FreeVars {
		add(fv)
	}
	return out
}

func (ex *Exec) loopHead(fr *Frame, li *loopInfo, pc Term, st State) (Term, State) {
	spec := ex.loopSpec(fr, li)
	isRootish := true
	_ = isRootish
	where := posOf(fr.fn, li.header.Instrs[0].Pos())
	if spec != nil {
		for _, inv := range spec.Invs {
			se := ex.newSpecEnv(fr, pc, st, fr.entry)
			goal, err := se.evalBool(inv.E)
			o := &Obligation{ID: fmt.Sprintf("%s#loop%d.%s.init", shortID(fnID(fr.fn)), li.ordinal, inv.Label), Func: ex.fnID, Kind: "invariant.init", Props: inv.Props, Where: where}
			if err != nil {
				o.Detail = "spec error: " + err.Error()
				goal = tFalse
			}
			ex.vc.oblige(o, pc, ex.vc.def("inv", goal))
		}
	} else {
		ex.vc.note(fmt.Sprintf("loop %d of %s has no invariant (true assumed)", li.ordinal, shortID(fnID(fr.fn))))
	}
	heap, locals := ex.loopWrites(fr, li)
	nm := make(map[string]Term, len(st.m))
	for k, v := range st.m {
		nm[k] = v
	}
	for _, k := range sortedKeys(heap) {
		so, ok := ex.keySort[k]
		if !ok {
			continue
		}
		nm[k] = ex.vc.fresh("lh_"+shortKey(k), so)
		ex.heapAllocatedBefore(nm[k], ex.nLoc)
	}
	var lallocs []*ssa.Alloc
	for al := range locals {
		lallocs = append(lallocs, al)
	}
	sort.Slice(lallocs, func(i, j int) bool { return allocOrder(lallocs[i]) < allocOrder(lallocs[j]) })
	for _, al := range lallocs {
		lv := fr.locals[al]
		if lv == nil {
			continue // allocated inside the loop: initialised when executed
		}
		if _, ok := st.m[lv.Key]; !ok {
			continue
		}
		v := ex.vc.fresh("lh_"+lv.Name, ex.te.sortOf(lv.T))
		ex.assumeTypeDeep(v, lv.T)
		nm[lv.Key] = v
	}
	for _, lv := range ex.parentLocalsWritten(fr) {
		if _, ok := st.m[lv.Key]; !ok {
			continue
		}
		v := ex.vc.fresh("lh_"+lv.Name, ex.te.sortOf(lv.T))
		ex.assumeTypeDeep(v, lv.T)
		nm[lv.Key] = v
	}
	nst := State{nm}
	// phis at the header take arbitrary values
	for _, in := range li.header.Instrs {
		if phi, ok := in.(*ssa.Phi); ok {
			fr.vals[phi] = ex.freshTyped(pc, "loopphi", phi.Type())
		}
	}
	lc := &loopCtx{headSt: nst}
	if spec != nil {
		for _, inv := range spec.Invs {
			se := ex.newSpecEnv(fr, pc, nst, fr.entry)
			fact, err := se.evalBool(inv.E)
			if err == nil {
				ex.vc.assume(pc, ex.vc.def("invh", fact), "loop invariant "+inv.Label)
			}
		}
		ex.applyAt(fr, fmt.Sprintf("loop%d", li.ordinal), pc, nst, nil)
		for _, d := range spec.Decreases {
			se := ex.newSpecEnv(fr, pc, nst, fr.entry)
			v := se.value(se.eval(d.E))
			if se.err != nil || v.Sort != SInt {
				lc.variants = append(lc.variants, Term{})
				continue
			}
			lc.variants = append(lc.variants, ex.vc.def("variant", v))
		}
	}
	loopCtxs[ex.loopKey(fr, li)] = lc
	return pc, nst
}

func (ex *Exec) assumeTypeDeep(v Term, t types.Type) {
	switch v.Sort {
	case SInt, SSlice:
		ex.assumeType(tTrue, v, t)
		return
	}
	if isStruct(t) {
		si := ex.te.structInfo(t)
		stt := t.Underlying().(*types.Struct)
		for i := 0; i < stt.NumFields(); i++ {
			ex.assumeTypeDeep(ex.te.fieldGet(si, v, i), stt.Field(i).Type())
		}
	}
}

func (ex *Exec) loopBack(fr *Frame, li *loopInfo, cond Term, st State) {
	spec := ex.loopSpec(fr, li)
	if spec == nil {
		return
	}
	lc := loopCtxs[ex.loopKey(fr, li)]
	where := posOf(fr.fn, li.header.Instrs[0].Pos())
	ex.applyAt(fr, fmt.Sprintf("loop%d", li.ordinal), cond, st, nil)
	for _, inv := range spec.Invs {
		se := ex.newSpecEnv(fr, cond, st, fr.entry)
		goal, err := se.evalBool(inv.E)
		bk := fmt.Sprintf("back:%d:%d:%s", fr.inst, li.ordinal, inv.Label)
		ex.nSafety[bk]++
		suffix := ""
		if n := ex.nSafety[bk]; n > 1 {
			suffix = fmt.Sprintf(".%d", n)
		}
		o := &Obligation{ID: fmt.Sprintf("%s#loop%d.%s.step%s", shortID(fnID(fr.fn)), li.ordinal, inv.Label, suffix), Func: ex.fnID, Kind: "invariant.step", Props: inv.Props, Where: where}
		if err != nil {
			o.Detail = "spec error: " + err.Error()
			goal = tFalse
		}
		ex.vc.oblige(o, cond, ex.vc.def("inv", goal))
	}
	if len(spec.Decreases) > 0 && lc != nil {
		// lexicographic decrease, bounded below by 0
		var disj []Term
		eqPrefix := tTrue
		okAll := true
		for i, d := range spec.Decreases {
			se := ex.newSpecEnv(fr, cond, st, fr.entry)
			v := se.value(se.eval(d.E))
			if se.err != nil || v.Sort != SInt || lc.variants[i].S == "" {
				okAll = false
				break
			}
			disj = append(disj, and(eqPrefix, app(SBool, "<", v, lc.variants[i]), app(SBool, "<=", intLit(0), lc.variants[i])))
			eqPrefix = and(eqPrefix, eq(v, lc.variants[i]))
		}
		goal := tFalse
		if okAll {
			goal = or(disj...)
		}
		dk := fmt.Sprintf("dec:%d:%d", fr.inst, li.ordinal)
		ex.nSafety[dk]++
		suffix := ""
		if n := ex.nSafety[dk]; n > 1 {
			suffix = fmt.Sprintf(".%d", n)
		}
		o := &Obligation{ID: fmt.Sprintf("%s#loop%d.decreases%s", shortID(fnID(fr.fn)), li.ordinal, suffix), Func: ex.fnID, Kind: "decreases", Props: spec.Decreases[0].Props, Where: where}
		ex.vc.oblige(o, cond, ex.vc.def("dec", goal))
	}
}

var _ = token.NoPos

// allocOrder gives a deterministic order to a function's allocations.
func allocOrder(al *ssa.Alloc) int {
	n := 0
	if b := al.Block(); b != nil {
		n = b.Index * 100000
		for i, in := range b.Instrs {
			if in == al {
				n += i
				break
			}
		}
	}
	return n
}

// uniqueCallee: the only function the call graph allows at a call through a
// function value, or nil.
func (g *Global) uniqueCallee(fn *ssa.Function, instr ssa.CallInstruction) *ssa.Function {
	node := g.cg.Nodes[fn]
	if node == nil {
		return nil
	}
	var found *ssa.Function
	for _, e := range node.Out {
		if e.Site != instr || e.Callee == nil || e.Callee.Func == nil {
			continue
		}
		if found != nil && found != e.Callee.Func {
			return nil
		}
		found = e.Callee.Func
	}
	return found
}
