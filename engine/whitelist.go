package main

import (
	"fmt"
	"go/constant"
	"go/types"
	"sort"
	"strings"

	"golang.org/x/tools/go/ssa"
)

func fnNames(fn *ssa.Function) []string {
	var out []string
	for f := fn; f != nil; f = f.Parent() {
		id := fnID(f)
		out = append(out, id, shortID(id), f.Name())
		if f.Pkg != nil {
			out = append(out, f.RelString(f.Pkg.Pkg), f.Pkg.Pkg.Name()+"."+f.RelString(f.Pkg.Pkg))
		}
	}
	return out
}

func allowedFn(fn *ssa.Function, allowed []string) bool {
	for _, n := range fnNames(fn) {
		if contains(allowed, n) {
			return true
		}
	}
	// synthetic wrappers (bound methods, thunks) are attributed to what they wrap
	return false
}

// checkWhitelist decides a whole-program frame obligation by scanning the SSA
// of every function in the program (rain and dependencies).
func (g *Global) checkWhitelist(wl *Whitelist) []*Obligation {
	pkgShort := strings.TrimPrefix(wl.Pkg, modPrefix)
	o := &Obligation{ID: fmt.Sprintf("%s#%s.%s", pkgShort, wl.Kind, wl.Label), Func: pkgShort, Kind: "frame." + wl.Kind, Props: wl.Props, Static: true, Solver: "ssa-scan",
		Where: fmt.Sprintf("%s:%d", strings.TrimPrefix(wl.File, "/repo/"), wl.Line)}
	offenders := map[string]bool{}
	sites := 0
	switch wl.Kind {
	case "layout":
		t := g.lookupType(wl.Target)
		if t == nil {
			t = g.lookupType(pkgShort + "." + wl.Target)
		}
		if t == nil {
			o.Result = "failed"
			o.Detail = "type " + wl.Target + " not found (contract target missing)"
			return []*Obligation{o}
		}
		var got []string
		var flat func(t types.Type)
		flat = func(t types.Type) {
			st, ok := t.Underlying().(*types.Struct)
			if !ok {
				return
			}
			for i := 0; i < st.NumFields(); i++ {
				f := st.Field(i)
				ft := f.Type()
				if p, ok := ft.Underlying().(*types.Pointer); ok && f.Embedded() {
					ft = p.Elem()
				}
				if _, isSt := ft.Underlying().(*types.Struct); isSt {
					flat(ft)
					continue
				}
				got = append(got, f.Name()+":"+types.TypeString(ft.Underlying(), nil))
			}
		}
		flat(t)
		o.Kind = "layout"
		if strings.Join(got, ", ") == strings.Join(wl.Allowed, ", ") {
			o.Result = "proved"
			o.Detail = fmt.Sprintf("%d fields in wire order match the protocol table", len(got))
		} else {
			o.Result = "failed"
			o.Detail = fmt.Sprintf("wire layout of %s is [%s], protocol table says [%s]", wl.Target, strings.Join(got, ", "), strings.Join(wl.Allowed, ", "))
		}
		return []*Obligation{o}
	case "callers":
		for _, fn := range g.allFns {
			if fn.Synthetic != "" && !strings.Contains(fn.Synthetic, "instance") {
				// wrappers and thunks forward to the real method: look through them
				continue
			}
			if wl.RainOnly && !isRainFn(fn) {
				continue
			}
			for _, b := range fn.Blocks {
				for _, in := range b.Instrs {
					if ci, ok := in.(ssa.CallInstruction); ok {
						if contains(calleeNames(ci.Common()), wl.Target) {
							sites++
							if !allowedFn(fn, wl.Allowed) {
								offenders[shortID(fnID(fn))+" ("+posOf(fn, in.Pos())+")"] = true
							}
						}
					}
					// the function used as a value (method value, callback)
					var ops []*ssa.Value
					ops = in.Operands(ops)
					for i, op := range ops {
						if op == nil || *op == nil {
							continue
						}
						f, ok := (*op).(*ssa.Function)
						if !ok {
							continue
						}
						_ = i
						if ci, isCall := in.(ssa.CallInstruction); isCall && ci.Common().Value == f {
							continue
						}
						names := []string{fnID(f), shortID(fnID(f))}
						if f.Pkg != nil {
							names = append(names, f.Pkg.Pkg.Name()+"."+f.RelString(f.Pkg.Pkg), f.RelString(f.Pkg.Pkg))
						}
						if contains(names, wl.Target) {
							sites++
							if !allowedFn(fn, wl.Allowed) {
								offenders[shortID(fnID(fn))+" takes the function as a value ("+posOf(fn, in.Pos())+")"] = true
							}
						}
					}
				}
			}
		}
	case "writers":
		i := strings.LastIndex(wl.Target, ".")
		if i < 0 {
			o.Result = "failed"
			o.Detail = "bad writers target"
			return []*Obligation{o}
		}
		tn, fname := wl.Target[:i], wl.Target[i+1:]
		t := g.lookupType(tn)
		if t == nil {
			t = g.lookupType(pkgShort + "." + tn)
		}
		if t == nil {
			o.Result = "failed"
			o.Detail = "type " + tn + " not found (contract target missing)"
			return []*Obligation{o}
		}
		st, _ := t.Underlying().(*types.Struct)
		fidx := -1
		if st != nil {
			for j := 0; j < st.NumFields(); j++ {
				if st.Field(j).Name() == fname {
					fidx = j
				}
			}
		}
		if fidx < 0 {
			o.Result = "failed"
			o.Detail = "field " + wl.Target + " not found (contract target missing)"
			return []*Obligation{o}
		}
		if g.cellMode[fmt.Sprintf("%s#%d", typeKey(t), fidx)] {
			offenders["address of "+wl.Target+" escapes: writers cannot be enumerated"] = true
		}
		tk := typeKey(t)
		for _, fn := range g.allFns {
			for _, b := range fn.Blocks {
				for _, in := range b.Instrs {
					var fa *ssa.FieldAddr
					var val ssa.Value
					switch in := in.(type) {
					case *ssa.Store:
						fa, _ = in.Addr.(*ssa.FieldAddr)
						val = in.Val
					case ssa.CallInstruction:
						c := in.Common()
						if callee := c.StaticCallee(); callee != nil && isAtomicFn(callee) && fnPkgPath(callee) == "sync/atomic" && len(c.Args) > 0 {
							if !strings.HasPrefix(callee.Name(), "Load") {
								fa, _ = c.Args[0].(*ssa.FieldAddr)
							}
						}
					}
					if fa == nil || fa.Field != fidx {
						continue
					}
					if typeKey(fa.X.Type().Underlying().(*types.Pointer).Elem()) != tk {
						continue
					}
					if wl.ValueIs != "" && val != nil {
						if c, ok := val.(*ssa.Const); ok && c.Value != nil && c.Value.Kind() == constant.Bool {
							if fmt.Sprint(constant.BoolVal(c.Value)) != wl.ValueIs {
								continue
							}
						}
					}
					sites++
					if !allowedFn(fn, wl.Allowed) {
						offenders[shortID(fnID(fn))+" ("+posOf(fn, in.Pos())+")"] = true
					}
				}
			}
		}
	}
	var offs []string
	for k := range offenders {
		offs = append(offs, k)
	}
	sort.Strings(offs)
	switch {
	case len(offs) > 0:
		o.Result = "failed"
		o.Detail = fmt.Sprintf("%s %s: not in whitelist: %s", wl.Kind, wl.Target, strings.Join(offs, "; "))
	case sites == 0 && len(wl.Allowed) == 1 && wl.Allowed[0] == "-":
		o.Result = "proved"
		o.Detail = fmt.Sprintf("no site in %d functions (none is allowed)", len(g.allFns))
	case sites == 0:
		o.Result = "failed"
		o.Detail = fmt.Sprintf("%s %s: no site found in the program (contract target missing)", wl.Kind, wl.Target)
	default:
		o.Result = "proved"
		o.Detail = fmt.Sprintf("%d sites in %d functions scanned, all inside {%s}", sites, len(g.allFns), strings.Join(wl.Allowed, ", "))
	}
	return []*Obligation{o}
}
