package main

import (
	"os"
	"fmt"
	"go/constant"
	"go/types"
	"sort"
	"strings"

	"golang.org/x/tools/go/ssa"
)

func fnNames(fn *ssa.Function) []string {
	var out []string
	for f := fn; f != nil; f = f.Parent() {
		id := fnID(f)
		out = append(out, id, shortID(id), f.Name())
		if f.Pkg != nil {
			out = append(out, f.RelString(f.Pkg.Pkg), f.Pkg.Pkg.Name()+"."+f.RelString(f.Pkg.Pkg))
		}
	}
	return out
}

func allowedFn(fn *ssa.Function, allowed []string) bool {
	for _, n := range fnNames(fn) {
		if contains(allowed, n) {
			return true
		}
	}
	// synthetic wrappers (bound methods, thunks) are attributed to what they wrap
	return false
}

// checkWhitelist decides a whole-program frame obligation by scanning the SSA
// of every function in the program (rain and dependencies).
func (g *Global) checkWhitelist(wl *Whitelist) []*Obligation {
	pkgShort := strings.TrimPrefix(wl.Pkg, modPrefix)
	o := &Obligation{ID: fmt.Sprintf("%s#%s.%s", pkgShort, wl.Kind, wl.Label), Func: pkgShort, Kind: "frame." + wl.Kind, Props: wl.Props, Static: true, Solver: "ssa-scan",
		Where: fmt.Sprintf("%s:%d", strings.TrimPrefix(wl.File, "/repo/"), wl.Line)}
	offenders := map[string]bool{}
	sites := 0
	switch wl.Kind {
	case "layout":
		t := g.lookupType(wl.Target)
		if t == nil {
			t = g.lookupType(pkgShort + "." + wl.Target)
		}
		if t == nil {
			o.Result = "failed"
			o.Detail = "type " + wl.Target + " not found (contract target missing)"
			return []*Obligation{o}
		}
		var got []string
		var flat func(t types.Type)
		flat = func(t types.Type) {
			st, ok := t.Underlying().(*types.Struct)
			if !ok {
				return
			}
			for i := 0; i < st.NumFields(); i++ {
				f := st.Field(i)
				ft := f.Type()
				if p, ok := ft.Underlying().(*types.Pointer); ok && f.Embedded() {
					ft = p.Elem()
				}
				if _, isSt := ft.Underlying().(*types.Struct); isSt {
					flat(ft)
					continue
				}
				got = append(got, f.Name()+":"+types.TypeString(ft.Underlying(), nil))
			}
		}
		flat(t)
		o.Kind = "layout"
		if strings.Join(got, ", ") == strings.Join(wl.Allowed, ", ") {
			o.Result = "proved"
			o.Detail = fmt.Sprintf("%d fields in wire order match the protocol table", len(got))
		} else {
			o.Result = "failed"
			o.Detail = fmt.Sprintf("wire layout of %s is [%s], protocol table says [%s]", wl.Target, strings.Join(got, ", "), strings.Join(wl.Allowed, ", "))
		}
		return []*Obligation{o}
	case "owned":
		return []*Obligation{g.checkOwned(wl, o)}
	case "intx":
		targets := strings.Split(wl.Target, ",")
		isTarget := func(c *ssa.CallCommon) bool {
			for _, n := range calleeNames(c) {
				if contains(targets, n) {
					return true
				}
			}
			return false
		}
		var openers, wrappers []string
		for _, a := range wl.Allowed {
			if strings.HasPrefix(a, "via ") {
				wrappers = append(wrappers, strings.TrimSpace(strings.TrimPrefix(a, "via ")))
			} else {
				openers = append(openers, a)
			}
		}
		useWrappers := false
		isOpener := func(c *ssa.CallCommon) bool {
			for _, n := range calleeNames(c) {
				if contains(openers, n) || (useWrappers && contains(wrappers, n)) {
					return true
				}
			}
			return false
		}
		if os.Getenv("RAINVC_DEBUG_INTX") != "" {
			for _, fn := range g.allFns {
				if !isRainFn(fn) {
					continue
				}
				for _, b := range fn.Blocks {
					for _, in := range b.Instrs {
						if ci, ok := in.(ssa.CallInstruction); ok && strings.Contains(fmt.Sprint(calleeNames(ci.Common())), "Update") {
							fmt.Fprintln(os.Stderr, "intx-debug:", fnID(fn), calleeNames(ci.Common()))
						}
					}
				}
			}
		}
		// callers of named rain functions (static calls only)
		callersOf := map[*ssa.Function][]*ssa.Function{}
		valueUse := map[*ssa.Function]bool{}
		for _, fn := range g.allFns {
			if !isRainFn(fn) {
				continue
			}
			for _, b := range fn.Blocks {
				for _, in := range b.Instrs {
					if ci, ok := in.(ssa.CallInstruction); ok {
						if callee := ci.Common().StaticCallee(); callee != nil {
							callersOf[callee] = append(callersOf[callee], fn)
						}
					}
					var ops []*ssa.Value
					for _, op := range in.Operands(ops) {
						if op == nil || *op == nil {
							continue
						}
						if f, ok := (*op).(*ssa.Function); ok {
							if ci, isCall := in.(ssa.CallInstruction); isCall && ci.Common().Value == f {
								continue
							}
							if _, isMC := in.(*ssa.MakeClosure); isMC {
								continue
							}
							valueUse[f] = true
						}
					}
				}
			}
		}
		var confined func(fn *ssa.Function, depth int, seen map[*ssa.Function]bool) bool
		confined = func(fn *ssa.Function, depth int, seen map[*ssa.Function]bool) bool {
			if depth > 6 || seen[fn] {
				return false
			}
			seen[fn] = true
			defer delete(seen, fn)
			if parent := fn.Parent(); parent != nil {
				// a literal: every closure made from it goes straight into an opener call
				found := false
				for _, b := range parent.Blocks {
					for _, in := range b.Instrs {
						mc, ok := in.(*ssa.MakeClosure)
						if !ok || mc.Fn != fn {
							continue
						}
						found = true
						refs := mc.Referrers()
						if refs == nil {
							return false
						}
						for _, r := range *refs {
							switch r := r.(type) {
							case *ssa.DebugRef:
							case ssa.CallInstruction:
								if _, isGo := r.(*ssa.Go); isGo || !isOpener(r.Common()) || r.Common().Value == mc {
									return false
								}
							default:
								return false
							}
						}
					}
				}
				if !found {
					// a literal without captured variables is a plain function value in its parent
					for _, b := range parent.Blocks {
						for _, in := range b.Instrs {
							var ops []*ssa.Value
							for _, op := range in.Operands(ops) {
								if op == nil || *op != ssa.Value(fn) {
									continue
								}
								if _, isDbg := in.(*ssa.DebugRef); isDbg {
									continue
								}
								found = true
								ci, isCall := in.(ssa.CallInstruction)
								if _, isGo := in.(*ssa.Go); !isCall || isGo || !isOpener(ci.Common()) || ci.Common().Value == fn {
									return false
								}
							}
						}
					}
				}
				return found
			}
			if valueUse[fn] || len(callersOf[fn]) == 0 {
				return false
			}
			for _, c := range callersOf[fn] {
				if !confined(c, depth+1, seen) {
					return false
				}
			}
			return true
		}
		// a wrapper runs its function argument only inside a literal handed to a real opener:
		// every call through a function value in the wrapper (and in its literals) is confined
		// with respect to the real openers, and there is at least one
		for _, fn := range g.allFns {
			if !isRainFn(fn) {
				continue
			}
			top := fn
			for top.Parent() != nil {
				top = top.Parent()
			}
			isW := false
			for _, n := range fnNames(top) {
				if contains(wrappers, n) {
					isW = true
				}
			}
			if !isW {
				continue
			}
			for _, b := range fn.Blocks {
				for _, in := range b.Instrs {
					ci, ok := in.(ssa.CallInstruction)
					if !ok || ci.Common().IsInvoke() || ci.Common().StaticCallee() != nil || staticClosure(ci.Common().Value) != nil {
						continue
					}
					if _, isBI := ci.Common().Value.(*ssa.Builtin); isBI {
						continue
					}
					sites++
					if !confined(fn, 0, map[*ssa.Function]bool{}) {
						offenders["wrapper "+shortID(fnID(fn))+" calls its argument outside a transaction ("+posOf(fn, in.Pos())+")"] = true
					}
				}
			}
		}
		useWrappers = true
		for _, fn := range g.allFns {
			if !isRainFn(fn) {
				continue
			}
			for _, b := range fn.Blocks {
				for _, in := range b.Instrs {
					if ci, ok := in.(ssa.CallInstruction); ok && isTarget(ci.Common()) {
						sites++
						if !confined(fn, 0, map[*ssa.Function]bool{}) {
							offenders[shortID(fnID(fn))+" ("+posOf(fn, in.Pos())+")"] = true
						}
					}
				}
			}
		}
	case "callers":
		for _, fn := range g.allFns {
			if fn.Synthetic != "" && !strings.Contains(fn.Synthetic, "instance") {
				// wrappers and thunks forward to the real method: look through them
				continue
			}
			if wl.RainOnly && !isRainFn(fn) {
				continue
			}
			for _, b := range fn.Blocks {
				for _, in := range b.Instrs {
					if ci, ok := in.(ssa.CallInstruction); ok {
						if contains(calleeNames(ci.Common()), wl.Target) {
							sites++
							if !allowedFn(fn, wl.Allowed) {
								offenders[shortID(fnID(fn))+" ("+posOf(fn, in.Pos())+")"] = true
							}
						}
					}
					// the function used as a value (method value, callback)
					var ops []*ssa.Value
					ops = in.Operands(ops)
					for i, op := range ops {
						if op == nil || *op == nil {
							continue
						}
						f, ok := (*op).(*ssa.Function)
						if !ok {
							continue
						}
						_ = i
						if ci, isCall := in.(ssa.CallInstruction); isCall && ci.Common().Value == f {
							continue
						}
						names := []string{fnID(f), shortID(fnID(f))}
						if f.Pkg != nil {
							names = append(names, f.Pkg.Pkg.Name()+"."+f.RelString(f.Pkg.Pkg), f.RelString(f.Pkg.Pkg))
						}
						if contains(names, wl.Target) {
							sites++
							if !allowedFn(fn, wl.Allowed) {
								offenders[shortID(fnID(fn))+" takes the function as a value ("+posOf(fn, in.Pos())+")"] = true
							}
						}
					}
				}
			}
		}
	case "writers":
		i := strings.LastIndex(wl.Target, ".")
		if i < 0 {
			o.Result = "failed"
			o.Detail = "bad writers target"
			return []*Obligation{o}
		}
		tn, fname := wl.Target[:i], wl.Target[i+1:]
		t := g.lookupType(tn)
		if t == nil {
			t = g.lookupType(pkgShort + "." + tn)
		}
		if t == nil {
			o.Result = "failed"
			o.Detail = "type " + tn + " not found (contract target missing)"
			return []*Obligation{o}
		}
		st, _ := t.Underlying().(*types.Struct)
		fidx := -1
		if st != nil {
			for j := 0; j < st.NumFields(); j++ {
				if st.Field(j).Name() == fname {
					fidx = j
				}
			}
		}
		if fidx < 0 {
			o.Result = "failed"
			o.Detail = "field " + wl.Target + " not found (contract target missing)"
			return []*Obligation{o}
		}
		if g.cellMode[fmt.Sprintf("%s#%d", typeKey(t), fidx)] {
			offenders["address of "+wl.Target+" escapes: writers cannot be enumerated"] = true
		}
		tk := typeKey(t)
		for _, fn := range g.allFns {
			for _, b := range fn.Blocks {
				for _, in := range b.Instrs {
					var fa *ssa.FieldAddr
					var val ssa.Value
					switch in := in.(type) {
					case *ssa.Store:
						fa, _ = in.Addr.(*ssa.FieldAddr)
						val = in.Val
					case ssa.CallInstruction:
						c := in.Common()
						if callee := c.StaticCallee(); callee != nil && isAtomicFn(callee) && fnPkgPath(callee) == "sync/atomic" && len(c.Args) > 0 {
							if !strings.HasPrefix(callee.Name(), "Load") {
								fa, _ = c.Args[0].(*ssa.FieldAddr)
							}
						}
					}
					if fa == nil || fa.Field != fidx {
						continue
					}
					if typeKey(fa.X.Type().Underlying().(*types.Pointer).Elem()) != tk {
						continue
					}
					if wl.ValueIs != "" && val != nil {
						if c, ok := val.(*ssa.Const); ok && c.Value != nil && c.Value.Kind() == constant.Bool {
							if fmt.Sprint(constant.BoolVal(c.Value)) != wl.ValueIs {
								continue
							}
						}
					}
					sites++
					if !allowedFn(fn, wl.Allowed) {
						offenders[shortID(fnID(fn))+" ("+posOf(fn, in.Pos())+")"] = true
					}
				}
			}
		}
	}
	var offs []string
	for k := range offenders {
		offs = append(offs, k)
	}
	sort.Strings(offs)
	switch {
	case len(offs) > 0:
		o.Result = "failed"
		o.Detail = fmt.Sprintf("%s %s: not in whitelist: %s", wl.Kind, wl.Target, strings.Join(offs, "; "))
	case sites == 0 && len(wl.Allowed) == 1 && wl.Allowed[0] == "-":
		o.Result = "proved"
		o.Detail = fmt.Sprintf("no site in %d functions (none is allowed)", len(g.allFns))
	case sites == 0:
		o.Result = "failed"
		o.Detail = fmt.Sprintf("%s %s: no site found in the program (contract target missing)", wl.Kind, wl.Target)
	default:
		o.Result = "proved"
		o.Detail = fmt.Sprintf("%d sites in %d functions scanned, all inside {%s}", sites, len(g.allFns), strings.Join(wl.Allowed, ", "))
	}
	return []*Obligation{o}
}

// checkOwned decides `owned <label> <owner> : targets`: in the static call relation of the rain
// module (calls, deferred calls, function values and closures attributed to the function that
// mentions them), walk backwards from each target without entering the owner. Reaching a
// function that is started with a go statement, or one that nobody in the module calls (an
// entry point of the API), means there is a path to the target that does not run inside the
// owner's goroutine.
func (g *Global) checkOwned(wl *Whitelist, o *Obligation) *Obligation {
	o.Kind = "frame.owned"
	type edge struct {
		from *ssa.Function
		pos  string
		goSt bool
	}
	rev := map[*ssa.Function][]edge{}
	goTarget := map[*ssa.Function]string{}
	byName := map[string]*ssa.Function{}
	outer := func(f *ssa.Function) *ssa.Function {
		for f.Parent() != nil {
			f = f.Parent()
		}
		return f
	}
	for _, fn := range g.allFns {
		if !isRainFn(fn) {
			continue
		}
		if fn.Synthetic != "" && !strings.Contains(fn.Synthetic, "instance") {
			continue
		}
		if fn.Parent() == nil {
			id := fnID(fn)
			byName[id] = fn
			byName[shortID(id)] = fn
		}
		for _, b := range fn.Blocks {
			for _, in := range b.Instrs {
				_, isGo := in.(*ssa.Go)
				if ci, ok := in.(ssa.CallInstruction); ok {
					callee := ci.Common().StaticCallee()
					if callee == nil {
						callee = staticClosure(ci.Common().Value)
					}
					if callee != nil && isRainFn(callee) {
						if isGo {
							goTarget[outer(callee)] = posOf(fn, in.Pos())
							if callee.Parent() != nil {
								// go func() {...}(): the literal's body runs in the new goroutine
								goTarget[callee] = posOf(fn, in.Pos())
							}
						}
						rev[callee] = append(rev[callee], edge{fn, posOf(fn, in.Pos()), isGo})
					}
				}
				var ops []*ssa.Value
				ops = in.Operands(ops)
				for _, op := range ops {
					if op == nil || *op == nil {
						continue
					}
					if f, ok := (*op).(*ssa.Function); ok && isRainFn(f) {
						if ci, isCall := in.(ssa.CallInstruction); isCall && ci.Common().Value == f {
							continue
						}
						rev[f] = append(rev[f], edge{fn, posOf(fn, in.Pos()), false})
					}
				}
			}
		}
	}
	owner := byName[strings.TrimPrefix(wl.Pkg, modPrefix)+"."+wl.Target]
	if owner == nil {
		owner = byName[wl.Target]
	}
	if owner == nil {
		o.Result = "failed"
		o.Detail = "owner " + wl.Target + " not found (contract target missing)"
		return o
	}
	// `writers:<pkg.Type>` stands for every rain function that directly writes a field of that
	// struct; `-name` takes a function out of the list again (constructors, fields that have
	// their own lock).
	var targets []string
	excluded := map[string]bool{}
	for _, tn := range wl.Allowed {
		if strings.HasPrefix(tn, "-") {
			excluded[strings.TrimPrefix(tn, "-")] = true
		}
	}
	for _, tn := range wl.Allowed {
		switch {
		case strings.HasPrefix(tn, "-"):
		case strings.HasPrefix(tn, "writers:"):
			ty := g.lookupType(strings.TrimPrefix(tn, "writers:"))
			if ty == nil {
				targets = append(targets, tn)
				continue
			}
			prefix := fmt.Sprintf("F|%s|", typeKey(ty))
			var found []string
			for _, fn := range g.allFns {
				if !isRainFn(fn) || (fn.Synthetic != "" && !strings.Contains(fn.Synthetic, "instance")) {
					continue
				}
				writes := false
				for k := range g.directWrites(fn) {
					if strings.HasPrefix(k, prefix) {
						writes = true
						break
					}
				}
				if !writes {
					continue
				}
				top := outer(fn)
				id := shortID(fnID(top))
				rel := id
				if top.Pkg != nil {
					rel = top.RelString(top.Pkg.Pkg)
				}
				if excluded[id] || excluded[rel] || contains(found, id) {
					continue
				}
				found = append(found, id)
			}
			sort.Strings(found)
			targets = append(targets, found...)
		default:
			targets = append(targets, tn)
		}
	}
	var offs []string
	visitedTotal := 0
	for _, tn := range targets {
		t := byName[strings.TrimPrefix(wl.Pkg, modPrefix)+"."+tn]
		if t == nil {
			t = byName[tn]
		}
		if t == nil {
			offs = append(offs, tn+": not found (contract target missing)")
			continue
		}
		seen := map[*ssa.Function]string{t: shortID(fnID(t))}
		work := []*ssa.Function{t}
		for len(work) > 0 {
			f := work[0]
			work = work[1:]
			visitedTotal++
			if f == owner {
				continue
			}
			if where, isGo := goTarget[f]; isGo {
				offs = append(offs, fmt.Sprintf("%s is reached from %s, which is started as a goroutine at %s (path: %s)", shortID(fnID(t)), shortID(fnID(f)), where, seen[f]))
				continue
			}
			callers := rev[f]
			if f.Parent() != nil {
				// a function literal runs where its enclosing function makes it run, unless it is itself a go target
				callers = append(callers, edge{f.Parent(), posOf(f.Parent(), f.Pos()), false})
			}
			if len(callers) == 0 {
				offs = append(offs, fmt.Sprintf("%s is reached from %s, which nothing in the module calls: an entry point outside %s (path: %s)", shortID(fnID(t)), shortID(fnID(f)), shortID(fnID(owner)), seen[f]))
				continue
			}
			for _, e := range callers {
				if _, ok := seen[e.from]; ok {
					continue
				}
				seen[e.from] = shortID(fnID(e.from)) + " -> " + seen[f]
				work = append(work, e.from)
			}
		}
	}
	sort.Strings(offs)
	if len(offs) > 0 {
		o.Result = "failed"
		o.Detail = "owned by " + wl.Target + ": " + strings.Join(offs, "; ")
	} else {
		o.Result = "proved"
		o.Detail = fmt.Sprintf("%d targets (%s), %d functions walked backwards: every path from a goroutine entry or API entry point passes through %s", len(targets), strings.Join(targets, ", "), visitedTotal, wl.Target)
	}
	return o
}
