package main

import (
	"fmt"
	"sort"
	"strings"
)

// Recursive specification functions. Each use is compiled to an uninterpreted
// SMT function whose identity is (name, heap arrays its body reads, argument
// sorts); an unfolding axiom with the application as trigger defines it. Two
// uses over the same heap arrays share one symbol, so no frame reasoning is
// needed when the arrays the body reads are unchanged between two states.

type recInstance struct {
	sym string
}

func (se *SpecEnv) callRec(pr *Pred, args []SVal) SVal {
	ex := se.ex
	if se.err != nil {
		return SVal{T: tTrue}
	}
	terms := make([]Term, len(args))
	for i, a := range args {
		terms[i] = se.value(a)
		switch terms[i].Sort {
		case SInt, SBool, SRef, SSlice, SStr, SIface:
		default:
			return se.fail("specfn %s: argument %d of sort %s not supported", pr.Name, i, terms[i].Sort)
		}
	}
	if ex.recActive == nil {
		ex.recActive = map[*Pred]bool{}
		ex.recInst = map[string]*recInstance{}
	}
	if ex.recActive[pr] {
		// recursive call inside the body being compiled
		return SVal{T: app(pr.Res, "@SELF@"+pr.Name, append([]Term{T("fuel!q", "Fuel")}, terms...)...)}
	}
	// compile the body over bound variables
	ex.recActive[pr] = true
	savedVars, savedLog := se.vars, ex.readLog
	ex.readLog = map[string]Term{}
	nv := map[string]SVal{}
	var binders, bnames []string
	for i, p := range pr.Params {
		ex.vc.n++
		name := fmt.Sprintf("%s!q%d", p, ex.vc.n)
		nv[p] = SVal{T: T(name, terms[i].Sort), Ty: args[i].Ty}
		binders = append(binders, fmt.Sprintf("(%s %s)", name, terms[i].Sort))
		bnames = append(bnames, name)
	}
	se.vars = nv
	se.depth++
	body := se.value(se.eval(pr.Body))
	se.depth--
	reads := ex.readLog
	se.vars, ex.readLog = savedVars, savedLog
	for k, v := range reads {
		if ex.readLog != nil {
			ex.readLog[k] = v
		}
	}
	delete(ex.recActive, pr)
	if se.err != nil {
		return SVal{T: tTrue}
	}
	if body.Sort != pr.Res {
		return se.fail("specfn %s: body has sort %s, declared %s", pr.Name, body.Sort, pr.Res)
	}
	var ks []string
	for k := range reads {
		ks = append(ks, k+"="+reads[k].S)
	}
	sort.Strings(ks)
	var sorts []string
	for _, t := range terms {
		sorts = append(sorts, string(t.Sort))
	}
	key := pr.Pkg + "." + pr.Name + "|" + strings.Join(ks, ";") + "|" + strings.Join(sorts, ",")
	inst := ex.recInst[key]
	if inst == nil {
		ex.vc.n++
		inst = &recInstance{sym: fmt.Sprintf("%s!%d", sanitize(pr.Name), ex.vc.n)}
		ex.recInst[key] = inst
		// fuel encoding: f(S(F), x) unfolds to the body over f(F, ·); f(S(F), x) == f(F, x).
		// Uses start with two units of fuel, so E-matching cannot unfold for ever.
		ex.vc.decls = append(ex.vc.decls, fmt.Sprintf("(declare-fun %s (Fuel %s) %s)", inst.sym, strings.Join(sorts, " "), pr.Res))
		self := "(" + inst.sym + " (FS fuel!q) " + strings.Join(bnames, " ") + ")"
		lower := "(" + inst.sym + " fuel!q " + strings.Join(bnames, " ") + ")"
		def := strings.ReplaceAll(body.S, "@SELF@"+pr.Name, inst.sym)
		all := "(fuel!q Fuel) " + strings.Join(binders, " ")
		ax := fmt.Sprintf("(forall (%s) (! (= %s %s) :pattern (%s)))", all, self, def, self)
		syn := fmt.Sprintf("(forall (%s) (! (= %s %s) :pattern (%s)))", all, self, lower, self)
		ex.vc.assume(tTrue, T(ax, SBool), "definition of spec function "+pr.Name)
		ex.vc.assume(tTrue, T(syn, SBool), "fuel synonym of spec function "+pr.Name)
	}
	return SVal{T: app(pr.Res, inst.sym, append([]Term{T("(FS (FS FZ))", "Fuel")}, terms...)...)}
}
