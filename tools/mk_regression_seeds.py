#!/usr/bin/env python3
"""For every `fixed` entry of known_findings.json build a seeded change that puts the defect
back: the reverse of the fix commit (contract files excluded), stored as
seeded/<prop>_r<commit>/patch.diff if it still applies to /repo HEAD and builds. These are the
canaries of the must-fail corpus: a check that stops failing on one of them has lost the clause
that found the defect."""
import json, subprocess, os, sys
R='/repo'
def sh(*a, **k):
    return subprocess.run(a, cwd=R, capture_output=True, text=True, **k)
assert sh('git','status','--porcelain').stdout.strip()=='' , '/repo not clean'
seen=set(); made=[]; skipped=[]
for e in json.load(open('/verif/known_findings.json')):
    if e.get('status')!='fixed': continue
    key=(e['property'], e['commit'])
    if key in seen: continue
    seen.add(key)
    c=e['commit']
    files=[f for f in sh('git','diff','--name-only',c+'^',c).stdout.split() if not f.endswith('zz_contracts_verif.go')]
    if not files: skipped.append((key,'no files')); continue
    patch=sh('git','diff',c,c+'^','--',*files).stdout
    name='%s_r%s'%(e['property'],c)
    p=subprocess.run(['git','apply','--check','-'],cwd=R,input=patch,capture_output=True,text=True)
    if p.returncode!=0:
        skipped.append((key,'does not apply: '+p.stderr.strip().split('\n')[0][:80])); continue
    subprocess.run(['git','apply','-'],cwd=R,input=patch,text=True)
    b=sh('go','build','./...')
    sh('git','checkout','--','.')
    # files created by the fix are deleted by the reverse patch; checkout restores them
    sh('git','clean','-fdq','--','internal','torrent')
    if b.returncode!=0:
        skipped.append((key,'does not build: '+b.stderr.strip().split('\n')[-1][:80])); continue
    d='/verif/seeded/'+name
    os.makedirs(d,exist_ok=True)
    open(d+'/patch.diff','w').write(patch)
    json.dump({"property":e['property'],"breaks":"reverse of fix commit %s: %s"%(c,e['line']),"origin":"tools/mk_regression_seeds.py (regression canary)","files":files,"obligation":e['obligation']},open(d+'/meta.json','w'),indent=1)
    made.append(name)
print('made',len(made)); print(' '.join(made))
print('skipped',len(skipped))
for k,w in skipped: print(' ',k,w)
