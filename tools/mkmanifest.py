#!/usr/bin/env python3
"""Regenerates /verif/MANIFEST.json from the table below (kept in one place so
that the manifest stays valid while checks are added)."""
import json, subprocess, os

ROOT = os.path.dirname(os.path.dirname(os.path.abspath(__file__)))

TECH = ("contract-based deductive verification: weakest-precondition VCs generated from go/ssa of /repo "
        "(contracts in //go:build verif comment files), discharged by z3/cvc5; whole-program frame "
        "whitelists by SSA scan")

NOTE_COMMON = ("Trusted: go/ssa of the working tree, rainvc's lowering/frame inference, the SMT solvers, listed library "
               "models and trusted-pure packages; sequential semantics (goroutine interleavings, timing, crashes, third-party "
               "library internals are outside the contracts). Every assumption used is listed in the evidence file.")

# id -> (claimed text, design_ref, extra note)  ; ids absent here go to not_applicable
CLAIMED = {}
NA = {}

def claim(pid, text, ref, note=""):
    CLAIMED[pid] = (text, ref, note)

def na(pid, reason):
    NA[pid] = reason

exec(open(os.path.join(ROOT, "tools", "claims.py")).read())

def main():
    checks = []
    for pid in sorted(CLAIMED):
        text, ref, note = CLAIMED[pid]
        checks.append({
            "property_id": pid,
            "quick_cmd": f"./check {pid} quick",
            "thorough_cmd": f"./check {pid} thorough",
            "evidence_file": f"/verif/evidence/{pid}.json",
            "replay_cmd_template": "cat {path}",
            "engine": "rainvc",
            "level_claimed": {"category": "proof", "text": text, "design_ref": ref},
            "level_note": (note + " " if note else "") + NOTE_COMMON,
            "technique": TECH,
        })
    hooks_commits = subprocess.run(["git", "-C", "/repo", "log", "--format=%H", "--grep=^verif:"], capture_output=True, text=True).stdout.split()
    m = {
        "version": 1,
        "setup_cmd": "./check build",
        "hooks": {
            "guard": "verif",
            "enable": "contract files zz_contracts_verif.go carry //go:build verif; rainvc loads /repo with -tags=verif; they are comment-only, so no executable code is guarded",
            "baseline_off_cmd": "cd /repo && GOPROXY=off go test -json -vet=off -count=1 -timeout 25m ./...",
            "source_commits": hooks_commits,
            "add_only": True,
        },
        "engines": [{
            "name": "rainvc",
            "path": "/verif/engine",
            "serves_properties": sorted(CLAIMED),
            "kind_free_text": "VC generator over go/ssa (NaiveForm) with a Gobra-style contract language in comment files; portfolio of z3-new, z3, cvc5; whole-program SSA scans for frame whitelists",
        }],
        "checks": checks,
        "not_applicable": [{"property_id": p, "reason": NA[p]} for p in sorted(NA)],
        "notes": "See DESIGN.md. Known findings in known_findings.json; obligation families in ledger.json.",
    }
    with open(os.path.join(ROOT, "MANIFEST.json"), "w") as f:
        json.dump(m, f, indent=1)
        f.write("\n")

main()
