#!/bin/bash
# verify_seed.sh <Cxx> <a|b> : confirm a sub-agent's seeded change in a scratch worktree and
# store it under /verif/seeded/<Cxx>_<x>/ . Checks: patch applies to /repo HEAD, builds,
# the existing suite stays green (only the 5 baseline failures), the demonstration fails
# with the change and passes without it.
set -u
id="$1"; x="$2"
src=/tmp/seed/$id
out=/verif/seeded/${id}_$x
wt=$(mktemp -d /tmp/seedverify.XXXXXX)
trap 'git -C /repo worktree remove --force "$wt/wt" >/dev/null 2>&1; rm -rf "$wt"' EXIT
git -C /repo worktree add -q --detach "$wt/wt" HEAD || exit 2
cd "$wt/wt"
export GOPROXY=off GOFLAGS=-mod=mod
dir=$(head -1 "$src/${x}_demo_test.go" | sed -n 's#^// dir: *##p' | tr -d ' ')
[ -n "$dir" ] || { echo "no dir line in demo"; exit 2; }
demo="$dir/zz_seed_${id}_${x}_test.go"
cp "$src/${x}_demo_test.go" "$demo"
echo "== demo without the change"
go test -count=1 -vet=off -timeout 120s "./$dir/" -run 'Seed' > "$wt/without.log" 2>&1; rc_without=$?
tail -3 "$wt/without.log"
git apply "$src/$x.patch" || { echo "PATCH DOES NOT APPLY"; exit 3; }
go build ./... || { echo "DOES NOT BUILD"; exit 3; }
echo "== demo with the change"
go test -count=1 -vet=off -timeout 120s "./$dir/" -run 'Seed' > "$wt/with.log" 2>&1; rc_with=$?
tail -5 "$wt/with.log"
rm -f "$demo"
echo "== existing suite with the change"
go test -count=1 -vet=off -timeout 600s ./... > "$wt/suite.log" 2>&1
fails=$(grep -E '^--- FAIL' "$wt/suite.log" | sed 's/ (.*//' | sort -u | tr '\n' ' ')
echo "failing tests: $fails"
extra=$(grep -E '^--- FAIL' "$wt/suite.log" | grep -v -E 'TestDownloadMagnet|TestDownloadTorrent|TestDownloadWebseed|TestTorrentDir|TestTorrentFiles' | wc -l)
ok=1
[ "$rc_without" -eq 0 ] || { echo "demo does not pass on the unchanged tree"; ok=0; }
[ "$rc_with" -ne 0 ] || { echo "demo does not fail with the change"; ok=0; }
[ "$extra" -eq 0 ] || { echo "existing suite has $extra extra failures"; ok=0; }
if [ "$ok" -eq 1 ]; then
  mkdir -p "$out"
  cp "$src/$x.patch" "$out/patch.diff"
  cp "$src/${x}_demo_test.go" "$out/demo_test.go"
  python3 - "$src/$x.json" "$out/meta.json" "$id" "$dir" <<'EOF'
import json,sys
src,dst,pid,d=sys.argv[1:5]
try: m=json.load(open(src))
except Exception as e: m={"note":"agent meta unreadable: %s"%e}
meta={"property":pid,"breaks":m.get("summary"),"needs":m.get("needs"),"files":m.get("files"),
 "demo_dir":d,"agent_meta":m,
 "confirmed":"verify_seed.sh: patch applies to /repo HEAD and builds; demonstration passes without the change and fails with it; existing suite shows only the 5 baseline failures (scratch worktree, removed afterwards)"}
json.dump(meta,open(dst,"w"),indent=1)
EOF
  echo "STORED $out"
else
  echo "REJECTED $id $x"
fi
