#!/bin/bash
# mkworktree.sh <name>: scratch worktree of /repo HEAD under /tmp/seed/<name>/wt with the
# verification contract files stripped (so that nothing of /verif's approach is visible).
set -e
name="$1"
d=/tmp/seed/$name
mkdir -p "$d"
git -C /repo worktree add -q --detach "$d/wt" HEAD
cd "$d/wt"
git rm -q $(git ls-files '*zz_contracts_verif.go')
git -c user.name=seed -c user.email=seed@x commit -qm "strip contract files"
echo "$d/wt"
