#!/usr/bin/env python3
"""adapter_from_seed.py <seed dir name> <obligation family id> <TestSeedFunc> "<what the clause says>"
Turns the demonstration of a stored seeded change into the replay adapter of the obligation that
now catches it: the chosen test becomes TestRainvcReplay, other TestSeed* functions are kept as
plain helpers (never run)."""
import re, sys
seed, obl, fn, text = sys.argv[1:5]
src = open('/verif/seeded/%s/demo_test.go' % seed).read().split('\n')
assert src[0].startswith('// dir:')
pkg = src[0].split(':', 1)[1].strip()
body = '\n'.join(src[1:])
assert re.search(r'func %s\(' % re.escape(fn), body), 'no such test'
body = re.sub(r'func %s\(' % re.escape(fn), 'func TestRainvcReplay(', body)
body = re.sub(r'func (TestSeed\w*)\((\w+) \*testing\.T\)', r'func zzUnused\1(\2 *testing.T)', body)
name = re.sub(r'[^A-Za-z0-9]', '_', obl)
hdr = '// rainvc:pkg %s\n// Replay adapter for %s: %s\n// (the demonstration of seeded change %s). FAILS when the real code violates the clause.\n' % (pkg, obl, text, seed)
open('/verif/replay/adapters/%s_test.go' % name, 'w').write(hdr + body)
print('/verif/replay/adapters/%s_test.go' % name)
