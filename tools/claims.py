# Per-property claims. Edited as checks come into existence; mkmanifest.py reads this.

NOT_BUILT = "check not built yet in this build session (planned in DESIGN.md); not claimed until its obligations discharge on the pinned tree"

claim("C03",
      "Proof, for all 32-bit inputs, that request validation equals the mathematical bound (no wrap-around), plus site "
      "guards on the serving path: whatever is handed to SendPiece is in bounds of a piece that is Done, non-empty, and - "
      "when the client is choking the peer - a piece for which the allowed-fast set answered yes (ghost-tracked Has "
      "result on the peer's own SentAllowedFast set for exactly that piece); the reader forwards only requests of at most "
      "16 KiB; a piece message is reported complete to the writer only with all requested bytes; see evidence for the functions under contract. Partial: cache eviction timing and the "
      "peer-writer goroutines are outside.",
      "DESIGN.md §4 C03")
claim("C16",
      "Proof that a tier rotates cyclically for ever and that its index stays in range, also when other announces move the index while a call waits for its tracker (the index is havocked across the inner Announce, in range by rely/guarantee): a stale failure does not move the tier, a success leaves it where it is; whole-program "
      "whitelist of writers of the tier index; that an HTTP announce reads at most the configured response size; that "
      "decoding a compact peer list never indexes out of range and yields one address per six bytes or an error; that a dictionary-model peer list yields only addresses that have "
      "an IP; that an announce cancelled by the caller itself does not move the tier; that the tracker id from a reply is written escaped into the next request; that a reply is decoded only after the bencode guard accepted it; that every announce attempt is accounted for: when announce() returns, its outcome was offered to the "
      "announcer loop in a hand-over select or the announcer's own context is done - an abort caused by another torrent "
      "that shares the tracker connection is reported as an error and so retried. "
      "Partial: bencoded reply parsing, UDP transaction matching and the transport's own goroutines are outside.",
      "DESIGN.md §4 C16")

claim("C15",
      "Proof that the UDP announce request carries the torrent's info-hash, peer id, port and counters unchanged for "
      "every input, and that the wire structs match the BEP 15 tables; that the periodical announcer's first announce "
      "of a run says started, that it says completed at most once (ghost counter; a nil channel is never selected), "
      "never says stopped from its loop, and arms its timer from a tracker reply or a need-more-peers signal only with "
      "a positive interval that is the tracker's or the minimum announce interval (zero/negative replies fall back to "
      "the minimum); that the minimum announce interval never decreases during a run (a reply's min interval can only raise it); that the wait taken from a failure reply's retry-in is zero or between a minute and a day (RetryIn, and whitelisted writers of Error.RetryIn store exactly its result); that a tier tells 'started' to a member that has not accepted an announce yet and 'stopped' exactly to members that have. Bounded stand-in (labelled, not counted): percent-escaping of info-hash and peer id for all byte "
      "values. Partial: the HTTP query as a whole, the stop announcer, and real timers are outside.",
      "DESIGN.md §4 C15")

claim("C06",
      "Proof that every info dictionary accepted by NewInfo is well-formed for all decodable inputs: positive piece length of at most 256 MiB "
      "and piece count, non-negative file lengths, Info.Length equal to the exact (non-wrapping) sum of the file lengths "
      "(recursive spec function + lemma by induction), piece count consistent with the total. Partial: piece construction "
      "termination and the size limits on the input paths are added as their contracts discharge (see evidence).",
      "DESIGN.md §4 C06")

claim("C19",
      "Proof, at every site, that a private torrent takes no peers from DHT or PEX, starts no DHT announcer, starts no "
      "PEX sender, refuses to export a magnet link, sends no DHT port message to its peers and adds no DHT node from theirs; whole-program whitelists pin the functions that may reach those "
      "sites. Partial: behaviour of the DHT library and the encodings of the private flag are outside.",
      "DESIGN.md §4 C19")

claim("C01",
      "Proof of the hash gate (a piece buffer is written only after VerifyHash accepted exactly that buffer, and a failed "
      "disk write is never reported as success), that the piece bit / Done flag are set only in the handler of a verified "
      "and successfully written piece, and whole-program whitelists of the functions that may write to storage or set "
      "Piece.Done; that a block received from a peer is copied to exactly its offset in the piece buffer and only when it "
      "is a block of the piece with the announced length (otherwise the buffer is untouched), that the torrent hands a "
      "block only to the downloader that owns that piece for that peer and the completed piece to the writer with the "
      "downloader's own buffer, that a web-seed piece is written only if it is not already done; and that the web-seed "
      "downloader releases a buffer only while it owns it (ghost ownership across its function literals); that the "
      "on-disk verifier sets a piece's bit only after the hash check accepted exactly that piece's full-length read. Partial: "
      "goroutine interleavings, SHA-1 collision freeness and storage semantics are outside.",
      "DESIGN.md §4 C01")

claim("C05",
      "Proof of the ordering links that can be stated per function: every data file is opened O_SYNC|O_RDWR (bit-exact), "
      "a piece bit is set only in the handler of a write that returned nil (shared with C01), storage writes happen only "
      "on the piece-writer path; the allocator reports a file that did not exist (HasMissing), which is what makes the "
      "torrent distrust a stored bitfield; stop() writes the bitfield to the resume db only when no re-check is pending (the bitfield a Verify() discarded is not written back); a verification request forgets the bitfield at once, in memory and in the db (ghost-tracked resumer write); when the allocator found a file missing the stored bitfield is forgotten before the files are verified, and the empty bitfield of freshly created files is persisted before any download starts. Partial: crash points, bbolt atomicity and kernel durability are assumptions; this family "
      "cannot kill a process.",
      "DESIGN.md §4 C05")

claim("C12",
      "Proof of the forced-encryption policy on the accept and dial paths (a successful forced handshake selected RC4 "
      "and returns the MSE stream; no plaintext write or retry when forced, whatever the enable/disable option says; a connection that is not an MSE stream is reported with cipher 0), of the cipher-selection checks, and of the "
      "sync-window arithmetic for every pad length; the handshaker goroutines pass the session's policy flags, the "
      "info-hash and our peer id to Dial/Accept unchanged and report RC4 after a forced handshake. Partial: DH/RC4 key agreement and byte transparency of the stream "
      "are cryptographic two-party properties outside function contracts.",
      "DESIGN.md §4 C12")

claim("C13",
      "Proof that the only place a magnet torrent adopts metadata is guarded, on every path, by: the adopted info is the "
      "parse of exactly the byte slice whose single SHA-1 (ghost-tracked hash input) compared equal to the torrent's "
      "info-hash, and it is not private; whole-program whitelist of writers of the info field; a metadata downloader is created only for a peer whose announced size is positive and at most MaxMetadataSize, one per peer, and nowhere else (callers whitelist). Partial: eventual success "
      "with an honest peer and the magnet string round trip are outside.",
      "DESIGN.md §4 C13")

claim("C08",
      "Proof, for every byte sequence a peer can send, that the reader never allocates beyond the configured message size "
      "or 16 KiB per block, never reaches its explicit panic, delivers only the expected message kinds; that the metadata "
      "downloader and the bitfield never index out of range under their representation invariants (which every operation "
      "re-establishes); that the piece downloader never indexes its buffer out of range, never reaches its explicit "
      "panics and only requests or cancels blocks of its piece (representation invariant established by New from the "
      "block layout); that extension messages, tracker replies, torrent files and magnet metadata reach the bencode decoder only after a guard accepted exactly those bytes (ghost-tracked), the guard itself never reads out of bounds and terminates, and - bounded stand-in, 9.6 million strings - its verdict agrees with the decoder's grammar: nesting deeper than 64 levels and strings declared longer than the data are refused (the decoder recurses per level and allocates a declared length before reading). At most 200 addresses of a PEX message are decoded (length cap in front of both DecodePeersCompact sites); a metadata data message carries the sub-slice of the info bytes at 16 KiB times the requested index (no wrap-around). Partial: isolation between peers and deadlock freedom are concurrency properties outside.",
      "DESIGN.md §4 C08")

claim("C14",
      "Proof of the port take/release balance of the session (a failed add leaves the free-port set exactly as it was, "
      "including the deferred release on every error path; a successful add removes exactly the returned port, which lies in the configured range; releasePort adds only ports of the configured range to the pool); the persisted started flag follows Start, Stop and Verify (ghost-tracked resumer write); stop-after options are cleared in memory where they are cleared in the db; a given id is checked against live torrents, reservations and records that failed to load, and reserved, in one step; a record is loaded only onto a free port; commands on a removed torrent do not touch the missing bucket. Bounded stand-ins also cover compaction keeping the recorded started flag and resume version, and the resume codec for nanosecond timestamps and non-UTF-8 strings (refused). "
      "Partial: concurrent adders, restart equivalence through a real database and the resume codec pairing are outside "
      "or not yet under contract (see evidence).",
      "DESIGN.md §4 C14")

claim("C17",
      "Proof of the guard-before-insert obligations at the sites that open connections (accept and dial caps hold in the state in which a handshaker is created) and of the outstanding-request cap (result never exceeds MaxRequestsOut, whatever a peer advertises); that the address queue counts every insertion and every replacement exactly once towards the pushed source (the step that keeps the per-source counters summing to the queue length); that the web-seed slot counter is decremented exactly where an open downloader is closed (closeWebseedDownloader's postcondition, and no other decrement in the handlers except after WebseedStopAt reported a close) and incremented only below WebseedMaxDownloads. For the resource manager (generic code, verified once on its generic body): an immediate grant is made exactly when the amount fits and leaves 0 <= available <= limit, its assertion cannot fire, the candidate picked for a deferred grant fits into what is available, removing a queued request keeps the others' amounts, and requests and releases are sent with non-negative amounts. A reject re-queues a block only if it was pending (the list of blocks to request cannot outgrow the piece); an item too large for the read cache has no timer to reset (cache sizes below the block size cannot crash a reader); a configuration accepted by NewSession has positive ticker periods, a positive read-cache block size, at least one read and one write slot and non-negative list sizes (Config.validate, and NewSession returns a session only after validate accepted). Partial: token buckets, RAM reservations across goroutines, the manager's loop as a whole (queued amounts stay non-negative on insertion is not proved) and the agreement between the queue's slice and its external btree are outside (see evidence).",
      "DESIGN.md §4 C17")

claim("C18",
      "Proof of the admission guards at every site that creates a handshaker (not connected, not banned, not blocked when the blocklist applies - consulted again at dial time, so a reload between queueing and dialing counts; tracker connections are dialed per announce and a cached UDP tracker address is re-checked, so they do not outlive a reload) and of the address filters in front of the candidate queue. Also proved: every entry of the address queue's time-ordered slice records its own position after Push, Pop, the nil-compaction (in-place, loop invariant) and the trimming step, with slices.SortFunc modelled as an injective rearrangement, so Pop clears the slot of the address it removed. The queue orders entries of equal BEP 40 priority by IP and port, so distinct addresses never displace each other; every address inserted passed all admission filters (port, unspecified, own loopback port, own external IP, interface addresses, blocklist; ghost-tracked results). Partial: the segment tree is recursive pointer code (not under contract); that the external btree holds exactly the slice's entries is assumed, not proved. The blocklist looks up exactly the big-endian value of the four address bytes (non-IPv4 addresses are not looked up), and private ranges are never taken for the host's public address.",
      "DESIGN.md §4 C18")

claim("C07",
      "Proof that every file or directory the archive extractor creates was first checked to lie under the destination "
      "directory plus separator (ghost-tracked prefix test on exactly that name), and that nothing else in rain calls the "
      "extractor's writer; the storage opens exactly Join(root, Clean(name)) (ghost-tracked); removing a torrent's data deletes Join(DataDir, first component of the cleaned file path), never a path built from the raw name and never the empty string, a single dot or two dots (ghost-tracked). Partial: semantics of path/filepath and strings are assumed; metainfo path cleaning is covered "
      "only as far as listed in the evidence.",
      "DESIGN.md §4 C07")

claim("C04",
      "Proof of per-handler lifecycle facts for every state in which a handler can run: the reported status is exactly the "
      "decision table over the torrent's fields; the resume bitfield is trusted only when no file was missing at "
      "allocation; a completed torrent keeps its bitfield and an incomplete one has an open completion channel (no "
      "double close); stop() leaves no handshaker, no data file, no picker, allocator or verifier and no address "
      "remembered as connected, and puts the torrent into Stopping; start() never leaves the stop announcer set (a start "
      "while Stopping takes effect); a verification request ends stopped: a failed re-check is not started over, no "
      "download is started while a re-check is pending, a request without metadata leaves none pending; stop-after "
      "options are consumed; a Stop() from the user also ends a pending re-check; the result of a piece writer that was "
      "started in a previous run is ignored (bitfield set and stop(err) only for a piece object of the current run); "
      "completed bytes follow from bitfield and metainfo alone; an added tracker gets its announcer only while "
      "announcers run; commands reach startAnnouncers with every tracker getting an announcer (also when some announcers run already); loop-owned state is reached only through the event loop: every function that writes a field of "
      "the torrent struct, and the handlers that update its maps, are reachable from goroutine entries and API entry "
      "points only via run() (whole-program call-graph dominance check). Bounded stand-ins (labelled, not counted): an allocator whose result is not received leaves "
      "no file open (99 cases); closing an incoming handshaker does not wait for the handshake timeout (6 cases). "
      "Partial: liveness (every command returns, convergence with a seed), timing and cross-goroutine orderings are "
      "outside function contracts; see evidence for the exact obligations.",
      "DESIGN.md §4 C04")

claim("C02",
      "Proof that an accepted info dictionary has a total length equal to the exact sum of its file lengths (shared with "
      "C06) and that a sub-range read of a piece hands the storage layer exactly the byte ranges that make up "
      "[off, off+len) of the concatenated sections (first section from its inner offset, later sections whole, enough "
      "sections to cover the request), using prefix-sum spec functions; that NewPieces gives every piece its exact length; and "
      "that the block layout of a piece is ascending, within the piece, at most one block size each and never inside a "
      "padding section; that the allocator opens every non-padding file under exactly the metainfo's path and length, "
      "never opens padding files, and lists the files in metainfo order. Bounded stand-in (labelled, not counted): a "
      "torrent created from a directory verifies against it, over 134 small layouts. Partial: beyond that bound torrent "
      "creation is outside.",
      "DESIGN.md §4 C02")

claim("C09",
      "Per-call proofs over the real picker, for every picker state and peer: whatever findPiece returns is not done, not "
      "being written, held by the peer, comes from an idle peer, is allowed-fast when the peer is choking, and has fewer "
      "running requests than the end-game limit (or none); in sequential mode with the file edges taken an unchoking peer "
      "gets the lowest-indexed eligible piece (recursive-free quantified specs, loop invariants in pickSequential / "
      "pickFileEdge); findGaps returns ascending, disjoint ranges of unowned, unfinished pieces; a range handed to a web "
      "seed (fresh gap, file tail, or stolen from another source) contained only unowned pieces, so PickWebseed's "
      "ownership assertion cannot fire; stop-at/close release exactly their range and never mark another piece; the "
      "available counter moves by one exactly when a piece gains its first or loses its last holder. sliceset Add/Remove/"
      "Has are proved against a membership predicate. Partial: these are function contracts; that the torrent calls them "
      "in an order that keeps the per-peer one-download rule and the owner/range agreement across calls is a history "
      "property that the contracts state as preconditions (indexed(p) is established by New and has no other writer), "
      "not prove; slices.SortFunc / Index / Contains are trusted models.",
      "DESIGN.md §4 C09")

claim("C11",
      "Proof, for every field value, that each message type reports the protocol's message id (BEP 3/6/10 numbers taken "
      "from the property, not from the code), that fixed-layout bodies (have, request, cancel/reject, piece header, port) "
      "are the big-endian fields in protocol order, that a bitfield body is copied out exactly across reads of any size, "
      "that the reader hands the torrent the message type that belongs to the id it read (both directions), and that the "
      "writer puts length = 1 + body length and the id into the first five bytes of the very buffer it sends, also when "
      "the body outgrew the fixed array (bytes.Buffer modelled as append). Upload accounting: the reported block length is "
      "the bytes written minus the 13 header bytes. PEX lists take IPv4 addresses only (NewCompactPeer is reached only after To4 returned four bytes). Partial: body bytes inside the writer come from Buffer.ReadFrom and "
      "are not linked to the Read contracts; reflection-based binary.Read/Write (reader fields, handshake layout), bencoded "
      "extension payloads and stream fragmentation are outside.",
      "DESIGN.md §4 C11")

# Round 5 additions to the claims above (appended to the claim text of the property).
def extend(pid, text):
    t, ref, note = CLAIMED[pid]
    CLAIMED[pid] = (t.rstrip() + " " + text, ref, note)

extend("C01", "Round 5: a buffer from the piece pool has exactly the requested length and holds only zero bytes (clear modelled), and the allocator's report of a missing file - on which the torrent's decision to trust the stored bitfield rests - carries this property too.")
extend("C03", "Round 5: the read-cache key of a block spells out peer id, piece index and block number in fixed-width fields, so bytes cached for one block are never served for another.")
extend("C04", "Round 5: the allocator's missing-file report (sticky over all files) carries this property too.")
extend("C05", "Round 5: whole-program obligation intx.writable - every Put/Delete/CreateBucket/DeleteBucket of the resume database is made inside a function literal handed directly to (*bbolt.DB).Update or Batch (or to the Resumer.update wrapper, itself checked), i.e. inside one writable transaction.")
extend("C07", "Round 5: the path components examined for '..' are the ones the paths are built from (the UTF-8 keys are substituted before the first component is examined); the name-cleaning stand-in also enumerates name.utf-8 / path.utf-8 keys.")
extend("C11", "Round 5: a piece block that arrives in several reads, with the read deadline passing any number of times, is assembled in stream order (every read continues where the bytes received so far end) and is complete when readPiece succeeds.")
extend("C12", "Round 5: the initial payload announced in the MSE handshake is read completely (io.CopyN's count equals the announced length) before the reader that replays it is built.")
extend("C14", "Round 5: the move handler asks for a record to be loaded onto a reserved port only with the port it took from the pool and wrote into that record; database changes only inside writable transactions (intx.writable); bounded stand-in for moves between sessions (labelled, not counted).")
extend("C15", "Round 5: a member of a tier is marked as having accepted an announce exactly when its own Announce returned without error (not on a cancelled or failed attempt).")
extend("C16", "Round 5: UDP transaction matching is now inside - over the transport's run loop the map invariant transactions[k].id == k holds, a datagram is handed to exactly the transaction whose id its header carries, the part after the header is sliced only from a datagram that holds a whole header (binary.Read's success is an assumed contract), and a datagram reaches the run loop as its own copy, not as a view of the read buffer.")
extend("C17", "Round 5: the read cache never exceeds its configured size - room is made for the whole new value before it is counted, for every number of evictions (makeRoom, removeItem, handleNewItem; the representation invariant 'size is the sum of the listed values' and the deferred run of the expiry function are listed assumptions).")
extend("C18", "Round 5: bounded stand-in (labelled, not counted) for the segment tree and the CIDR range: real tree against a linear scan for all lists of up to 3 ranges over a 7-value domain at three bases, real blocklist against net.IPNet.Contains for all lists of up to 2 of 40 CIDR rules.")
extend("C02", "Round 5 (batch 3): web-seed jobs are never for zero bytes and the pieces are read inside the range the downloader owns (createJobs); the cache-block loop of CachedPiece.ReadAt carries this property too.")
extend("C06", "Round 5 (batch 3): whole-program caller whitelists - metainfo.New, metainfo.NewInfo, Session.parseMetaInfo and Session.parseInfo are reached only through the guarded doors (size-limited reader, piece-count cap, metadata size cap).")
extend("C08", "Round 5 (batch 3): a cancel lowers the upload queue counter exactly when it removed a queued piece message (so cancels that match nothing cannot lift the per-peer cap); an announced metadata size / request queue length is only ever changed to zero when negative.")
extend("C11", "Round 5 (batch 3): the 68 handshake bytes are taken off the stream by full reads of 20, 8, 20 and 20 bytes, however the transport fragments them.")
extend("C13", "Round 5 (batch 3): the announced metadata size reaches the size cap as decoded (only 'negative means none' is applied), so a size of 2^32 or more cannot wrap below the cap.")
extend("C16", "Round 5 (batch 3): a UDP announce reply of any length is parsed in bounds - the peer list is what follows a whole 20-byte header of a reply whose action is 'announce' (binary.Read's success is an assumed contract).")
extend("C17", "Round 5 (batch 3): a cancel lowers the upload queue counter only for a removed piece message (never for a queued reject, which was not counted); a memory request whose requester has gone away (cancel channel won the select) reserves nothing.")
extend("C13", "Bounded stand-in (labelled, not counted): the magnet link exported by Torrent.Magnet() parses back to the tiers, peers, name and info-hash it was added with, for every sequence of up to 3 tiers of up to 3 trackers.")
extend("C14", "The compaction stand-in also covers a tracker added after the torrents were reloaded by a new session.")
extend("C04", "Round 5 (batch 3): a re-check that finds pieces missing clears the completed flag before the torrent is stopped again, also when the user asked for the re-check.")
extend("C11", "The bencode guard answers after the first complete value: the raw block that follows the dictionary of a metadata message is never read as bencode.")
extend("C09", "Round 5 (batch 3): the web-seed downloader decides whether a piece is the last of its range against the live end of the range (as shortened by the picker), not a value remembered at start.")
extend("C15", "Round 5 (batch 4): the UDP tracker's interval reaches the announcer as the reply's 32-bit seconds widened before scaling, for every value.")
extend("C05", "Round 5 (batch 4): the on-disk verifier hashes a piece only after a read that returned all its bytes (the reused buffer's stale tail never reaches the hash check).")
extend("C03", "Round 5 (batch 4): a reader that finds a cache item whose load failed gets the error, never the partly filled buffer.")

na("C10", "liveness/progress over unbounded schedules of several goroutines: a function contract cannot state fairness or progress measures (DESIGN.md §4 C10)")
na("C20", "data races and lock-ups quantify over schedules; the contracts are sequential and assume the single-owner discipline C20 asks to prove (DESIGN.md §4 C20)")
for p in ["C01", "C02", "C04", "C05", "C06", "C07", "C08", "C09", "C11", "C12", "C13", "C14", "C15", "C17", "C18", "C19"]:
    if p not in CLAIMED:
        na(p, NOT_BUILT)
