#!/usr/bin/env python3
"""Build a self-contained replay adapter from the review test corpus in replay/review/.
usage: adapter_from_review.py <TestZZName> <adapter file name> <header comment text>
The adapter holds the shared helpers (session/storage scaffolding), the one test renamed to
TestRainvcReplay, and a dummy use of every import so that unused helpers do not break the build."""
import re, sys
name, out, header = sys.argv[1], sys.argv[2], sys.argv[3]
rev = open('/verif/replay/review/agentA_review_test.go.txt').read()
sto = open('/verif/replay/review/agentA_storage_test.go.txt').read()
# split review file into top-level funcs
parts = re.split(r'\n(?=(?:// ----|func ))', rev)
prelude_imports = '''import (
	"bytes"
	"fmt"
	"net"
	"net/http"
	"net/http/httptest"
	"os"
	"path/filepath"
	"runtime"
	"strconv"
	"strings"
	"sync"
	"sync/atomic"
	"testing"
	"time"

	"github.com/cenkalti/rain/v2/internal/piecewriter"
	"github.com/cenkalti/rain/v2/internal/storage"
	"github.com/cenkalti/rain/v2/internal/storage/filestorage"
)

var _ = []any{bytes.Equal, fmt.Sprint, net.Listen, http.NewRequest, httptest.NewServer, os.Getenv, filepath.Join, runtime.Stack, strconv.Itoa, strings.Split, sync.NewCond, atomic.AddInt64, time.Now, piecewriter.New}
'''
helpers, test = [], None
for p in parts:
    m = re.match(r'(?:// ----[^\n]*\n)?func (\w+)', p)
    if not m:
        m2 = re.search(r'\nfunc (\w+)', '\n' + p)
        if not m2:
            continue
        m = m2
    fn = m.group(1)
    body = re.sub(r'^// ----[^\n]*\n', '', p)
    if fn == name:
        test = body
    elif not fn.startswith('TestZZ'):
        helpers.append(body)
assert test, 'test not found'
test = test.replace('func %s(' % name, 'func TestRainvcReplay(')
test = test.replace('t.Errorf("', 't.Errorf("violation reproduced: ')
# the stop announcer's watchdog goroutine lives until the tracker stop timeout: keep it short and
# wait for it, or goleak (TestMain) fails a passing replay
noinject = len(sys.argv) > 4 and sys.argv[4] == 'noinject'
inj = '' if noinject else '\n\ts.config.TrackerStopTimeout = 100 * time.Millisecond\n\tdefer time.Sleep(400 * time.Millisecond)'
test, n = re.subn(r'(\n\ts(?:, p)? := (?:newTestSession|zzSessionWithStorage)\(t\))', r'\1' + inj, test, count=1)
if n == 0:
    test, n = re.subn(r'(\n\ts := zzOpenSession\([^\n]*\))', r'\1' + inj, test, count=1)
sto_body = sto[sto.index(')\n', sto.index('import (')) + 2:]
text = '// rainvc:pkg torrent\npackage torrent\n\n' + ''.join('// ' + l + '\n' for l in header.split('\n')) + '// FAILS when the real code violates the clause.\n\n' + prelude_imports + '\n' + '\n'.join(h.rstrip() + '\n' for h in helpers) + '\n' + sto_body.strip() + '\n\n' + test.rstrip() + '\n'
open('/verif/replay/adapters/' + out, 'w').write(text)
