#!/bin/bash
# run_seeds.sh [Cxx_y ...]: apply each seeded change to /repo, run the property's quick check,
# record whether it is detected, and undo the change straight afterwards.
cd /verif
[ -z "$(git -C /repo status --porcelain)" ] || { echo "/repo working tree not clean"; exit 2; }
names="$@"; [ -n "$names" ] || names=$(ls seeded)
for n in $names; do
  id=${n%%_*}
  jq -e --arg id "$id" '.checks[]|select(.property_id==$id)' MANIFEST.json >/dev/null || { echo "$n: property $id not claimed"; continue; }
  git -C /repo apply "/verif/seeded/$n/patch.diff" || { echo "$n: patch does not apply"; continue; }
  out=$(./check "$id" quick 2>&1); rc=$?
  git -C /repo checkout -- . 
  viol=$(echo "$out" | grep -c '^VIOLATION')
  echo "$n: exit=$rc violations=$viol $(echo "$out" | grep '^VIOLATION' | sed 's/.*obligation=//' | cut -c1-90 | head -3 | tr '\n' ';')"
  echo "$out" | grep -E '^VIOLATION|^rainvc' > "seeded/$n/check_output.txt"
  touched="$touched $id"
done
# evidence must describe the unchanged tree: regenerate it for every property that was run
for id in $(echo $touched | tr ' ' '\n' | sort -u); do ./check "$id" quick > /dev/null; done
# evidence files were rewritten by runs on changed trees: regenerate them on the unchanged tree
