#!/bin/bash
# ./check selftest [seed ...]: the must-fail corpus. Applies every stored property-breaking change
# (seeded/<id>_<a|b>/patch.diff) to /repo in turn, runs the property's quick check, undoes the
# change, and fails if a change that is expected to be caught is not (or the other way round).
# Expectations are in selftest/expect.txt. /repo must be clean; it is left clean.
cd "$(dirname "$0")/.."
names="$*"; [ -n "$names" ] || names=$(ls seeded | tr '\n' ' ')
out=$(tools/run_seeds.sh $names 2>&1); echo "$out"
rc=0
while read -r seed want; do
  [ -z "$seed" ] && continue
  case " $names " in *" $seed "*) ;; *) continue ;; esac
  line=$(echo "$out" | grep "^$seed:")
  if echo "$line" | grep -q "exit=1"; then got=caught; elif echo "$line" | grep -q "does not apply"; then got=stale; else got=missed; fi
  if [ "$want" != "$got" ]; then echo "SELFTEST MISMATCH: $seed expected $want, got $got ($line)"; rc=1; fi
done < selftest/expect.txt
[ $rc = 0 ] && echo "selftest: every seeded change behaved as expected"
exit $rc
