// rainvc:pkg internal/announcer
// Replay adapter for (*HTTPTracker).Announce#site.bounded (tracker.RetryIn#bounded): the wait taken
// from a failure reply's "retry in" is ignored or between a minute and a day. Reply: retry in =
// 3749353613647811 minutes, whose product with time.Minute wraps to 2048 ns.
// FAILS when the real code violates the clause.
package announcer

import (
	"github.com/cenkalti/rain/v2/internal/logger"
	"github.com/cenkalti/rain/v2/internal/tracker"
	"github.com/cenkalti/rain/v2/internal/tracker/httptracker"
	"net"
	"net/http"
	"net/http/httptest"
	"net/url"
	"strconv"
	"sync/atomic"
	"testing"
	"time"
)

func TestRainvcReplay(t *testing.T) {
	var hits atomic.Int32
	const retryIn = "3749353613647811"
	srv := httptest.NewServer(http.HandlerFunc(func(w http.ResponseWriter, r *http.Request) {
		hits.Add(1)
		_, _ = w.Write([]byte("d14:failure reason4:busy8:retry in" + strconv.Itoa(len(retryIn)) + ":" + retryIn + "e"))
	}))
	defer srv.Close()
	u, _ := url.Parse(srv.URL + "/announce")
	trk := httptracker.New(srv.URL+"/announce", u, 5*time.Second, &http.Transport{}, "zz", 1<<20)
	a := NewPeriodicalAnnouncer(trk, 50, time.Minute, func() tracker.Torrent { return tracker.Torrent{} }, make(chan struct{}), make(chan []*net.TCPAddr), logger.New("zz"))
	go a.Run()
	time.Sleep(time.Second)
	a.Close()
	if n := hits.Load(); n > 2 {
		t.Errorf("violation reproduced: %d announces in one second after failure reply with retry in=%s", n, retryIn)
	}
}
