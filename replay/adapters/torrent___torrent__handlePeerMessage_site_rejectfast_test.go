// rainvc:pkg torrent
package torrent

// Replay adapter for (*torrent).handlePeerMessage#site.rejectfast: a request for a piece we do
// not have, from a peer that did not negotiate the Fast Extension, is not answered with a
// Reject message (id 16). FAILS when the real code violates the clause.

import (
	"encoding/binary"
	"io"
	"net"
	"os"
	"testing"
	"time"

	"github.com/cenkalti/rain/v2/internal/allocator"
	"github.com/cenkalti/rain/v2/internal/bitfield"
	"github.com/cenkalti/rain/v2/internal/peer"
	"github.com/cenkalti/rain/v2/internal/peerprotocol"
	"github.com/cenkalti/rain/v2/internal/peersource"
	"github.com/cenkalti/rain/v2/internal/piece"
	"github.com/cenkalti/rain/v2/internal/piecepicker"
	"github.com/cenkalti/rain/v2/internal/storage"
)

type rainvcAddrConn2 struct{ net.Conn }

func (c rainvcAddrConn2) RemoteAddr() net.Addr { return &net.TCPAddr{IP: net.IPv4(9, 9, 9, 9), Port: 2} }
func (c rainvcAddrConn2) LocalAddr() net.Addr  { return &net.TCPAddr{IP: net.IPv4(127, 0, 0, 1), Port: 1} }

func TestRainvcReplay(t *testing.T) {
	s := newTestSession(t)
	f, err := os.Open(torrentFile)
	if err != nil {
		t.Fatal(err)
	}
	defer f.Close()
	tor, err := s.AddTorrent(f, &AddTorrentOptions{Stopped: true})
	if err != nil {
		t.Fatal(err)
	}
	tt := tor.torrent
	var files []allocator.File
	for _, fi := range tt.info.Files {
		files = append(files, allocator.File{Storage: storage.NewPaddingFile(fi.Length), Name: fi.Path, Padding: fi.Padding})
	}
	tt.pieces = piece.NewPieces(tt.info, files)
	tt.bitfield = bitfield.New(tt.info.NumPieces)
	tt.piecePicker = piecepicker.New(tt.pieces, 2, nil, false)
	a, b := net.Pipe()
	defer b.Close()
	pe := peer.New(rainvcAddrConn2{a}, peersource.Manual, [20]byte{7}, [8]byte{}, 0, time.Minute, time.Minute, 10, 1<<20, nil, nil) // no Fast Extension
	pe.Bitfield = bitfield.New(tt.info.NumPieces)
	go pe.Run(make(chan peer.Message, 16), make(chan peer.PieceMessage, 16), make(chan *peer.Peer, 1), make(chan *peer.Peer, 1))
	defer pe.Close()
	done := make(chan struct{})
	go func() {
		defer close(done)
		tt.handlePeerMessage(peer.Message{Peer: pe, Message: peerprotocol.RequestMessage{Index: 0, Begin: 0, Length: 16384}})
	}()
	_ = b.SetReadDeadline(time.Now().Add(time.Second))
	var l uint32
	if err := binary.Read(b, binary.BigEndian, &l); err != nil {
		<-done
		return // nothing was sent: as it should be
	}
	x := make([]byte, l)
	_, _ = io.ReadFull(b, x)
	<-done
	if len(x) > 0 && x[0] == 16 {
		t.Fatalf("violation reproduced: a request for a piece we do not have was answered with a Reject message (id 16) although the peer did not negotiate the Fast Extension")
	}
}
