// rainvc:pkg torrent
// Replay adapter for torrent.(*torrent).handleVerificationDone#site.cleared: a re-check that finds pieces missing clears completed
// (the demonstration of seeded change C04_f). FAILS when the real code violates the clause.
package torrent

import (
	"bytes"
	"math/rand"
	"os"
	"path/filepath"
	"testing"
	"time"

	"github.com/cenkalti/rain/v2/internal/logger"
	"github.com/cenkalti/rain/v2/internal/metainfo"
)

const seedFPieceLength = 16 << 10

// seedFNewTorrent builds a single file torrent of numPieces full pieces from random data.
func seedFNewTorrent(t *testing.T, numPieces int) (mi []byte, name string, data []byte) {
	t.Helper()
	name = "seedf.bin"
	data = make([]byte, numPieces*seedFPieceLength)
	rand.New(rand.NewSource(4)).Read(data)
	src := filepath.Join(t.TempDir(), name)
	if err := os.WriteFile(src, data, 0o600); err != nil {
		t.Fatal(err)
	}
	info, err := metainfo.NewInfoBytes("", []string{src}, false, seedFPieceLength, "", logger.New("seedf"))
	if err != nil {
		t.Fatal(err)
	}
	mi, err = metainfo.NewBytes(info, nil, nil, "")
	if err != nil {
		t.Fatal(err)
	}
	return mi, name, data
}

// seedFNewSession is newTestSession with a short tracker stop timeout: the helper goroutine of
// the stop announcer lives until that timeout and would be reported by goleak otherwise.
func seedFNewSession(t *testing.T) *Session {
	t.Helper()
	tmp := t.TempDir()
	cfg := DefaultConfig
	cfg.Database = filepath.Join(tmp, "session.db")
	cfg.DataDir = tmp
	cfg.DHTEnabled = false
	cfg.PEXEnabled = false
	cfg.RPCEnabled = false
	cfg.Host = "127.0.0.1"
	cfg.TrackerStopTimeout = 100 * time.Millisecond
	s, err := NewSession(cfg)
	if err != nil {
		t.Fatal(err)
	}
	t.Cleanup(func() {
		if err := s.Close(); err != nil {
			t.Fatal(err)
		}
	})
	return s
}

func seedFWaitStatus(t *testing.T, tor *Torrent, what string, ok func(Stats) bool) Stats {
	t.Helper()
	deadline := time.Now().Add(20 * time.Second)
	for {
		st := tor.Stats()
		if ok(st) {
			return st
		}
		if time.Now().After(deadline) {
			t.Fatalf("timeout waiting for %s; status=%s have=%d missing=%d err=%v", what, st.Status, st.Pieces.Have, st.Pieces.Missing, st.Error)
		}
		time.Sleep(10 * time.Millisecond)
	}
}

// Sequence: complete torrent (Seeding) -> stop -> a piece gets corrupted on disk while stopped ->
// verify (ends Stopped, with one piece missing) -> start.
// The status reported after the last start must be truthful: Seeding only if every piece is held.
func TestRainvcReplay(t *testing.T) {
	const numPieces = 4
	mi, name, data := seedFNewTorrent(t, numPieces)

	s := seedFNewSession(t)
	tor, err := s.AddTorrent(bytes.NewReader(mi), &AddTorrentOptions{Stopped: true})
	if err != nil {
		t.Fatal(err)
	}
	dir := filepath.Join(s.config.DataDir, tor.ID())
	if err = os.MkdirAll(dir, 0o750); err != nil {
		t.Fatal(err)
	}
	dataFile := filepath.Join(dir, name)
	if err = os.WriteFile(dataFile, data, 0o640); err != nil {
		t.Fatal(err)
	}

	// Existing files are verified on the first start, the torrent becomes a seed.
	if err = tor.Start(); err != nil {
		t.Fatal(err)
	}
	st := seedFWaitStatus(t, tor, "Seeding", func(st Stats) bool { return st.Status == Seeding })
	if st.Pieces.Have != numPieces || st.Bytes.Completed != int64(len(data)) {
		t.Fatalf("seed is not complete: have=%d completed=%d", st.Pieces.Have, st.Bytes.Completed)
	}

	if err = tor.Stop(); err != nil {
		t.Fatal(err)
	}
	seedFWaitStatus(t, tor, "Stopped", func(st Stats) bool { return st.Status == Stopped })

	// Corrupt the second piece while the torrent is stopped.
	f, err := os.OpenFile(dataFile, os.O_WRONLY, 0)
	if err != nil {
		t.Fatal(err)
	}
	if _, err = f.WriteAt(bytes.Repeat([]byte{0xAA}, 100), seedFPieceLength+10); err != nil {
		t.Fatal(err)
	}
	if err = f.Close(); err != nil {
		t.Fatal(err)
	}

	// The verification request ends with the torrent stopped and finds the bad piece.
	if err = tor.Verify(); err != nil {
		t.Fatal(err)
	}
	st = seedFWaitStatus(t, tor, "Stopped after verify", func(st Stats) bool { return st.Status == Stopped })
	if st.Error != nil {
		t.Fatalf("verify failed: %v", st.Error)
	}
	if st.Pieces.Have != numPieces-1 || st.Pieces.Missing != 1 {
		t.Fatalf("verification result: have=%d missing=%d, want %d/1", st.Pieces.Have, st.Pieces.Missing, numPieces-1)
	}

	// Start again. There is no peer, so the torrent must sit in Downloading with one piece missing.
	if err = tor.Start(); err != nil {
		t.Fatal(err)
	}
	st = seedFWaitStatus(t, tor, "running", func(st Stats) bool {
		return st.Status == Downloading || st.Status == Seeding
	})
	if st.Pieces.Missing != 1 {
		t.Fatalf("missing=%d, want 1", st.Pieces.Missing)
	}
	if st.Status == Seeding {
		t.Fatalf("status is Seeding although %d piece(s) are missing (completed %d of %d bytes)", st.Pieces.Missing, st.Bytes.Completed, st.Bytes.Total)
	}
	if st.Status != Downloading {
		t.Fatalf("status=%s, want Downloading", st.Status)
	}
	select {
	case <-tor.NotifyComplete():
		t.Fatal("completion is signalled although a piece is missing")
	default:
	}
}
