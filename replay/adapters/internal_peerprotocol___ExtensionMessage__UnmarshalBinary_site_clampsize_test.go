// rainvc:pkg torrent
// Replay adapter for internal/peerprotocol.(*ExtensionMessage).UnmarshalBinary#site.clampsize: an announced metadata size is only ever changed to zero
// (the demonstration of seeded change C13_e). FAILS when the real code violates the clause.
package torrent

import (
	"net"
	"testing"
	"time"

	"github.com/cenkalti/rain/v2/internal/infodownloader"
	"github.com/cenkalti/rain/v2/internal/logger"
	"github.com/cenkalti/rain/v2/internal/mse"
	"github.com/cenkalti/rain/v2/internal/peer"
	"github.com/cenkalti/rain/v2/internal/peerprotocol"
	"github.com/cenkalti/rain/v2/internal/peersource"
	"github.com/zeebo/bencode"
)

// seedHandshakeFromWire encodes an extension handshake announcing metadataSize the way a remote
// peer would put it on the wire, and decodes it with the same code the peer reader uses.
func seedHandshakeFromWire(t *testing.T, metadataSize int64) *peerprotocol.ExtensionHandshakeMessage {
	t.Helper()
	body := map[string]any{
		"m":             map[string]any{peerprotocol.ExtensionKeyMetadata: 3},
		"v":             "seed-peer",
		"metadata_size": metadataSize,
		"reqq":          250,
	}
	enc, err := bencode.EncodeBytes(body)
	if err != nil {
		t.Fatal(err)
	}
	var em peerprotocol.ExtensionMessage
	err = em.UnmarshalBinary(append([]byte{peerprotocol.ExtensionIDHandshake}, enc...))
	if err != nil {
		// Refusing the message altogether is fine too: nothing is fetched then.
		return nil
	}
	hs, ok := em.Payload.(peerprotocol.ExtensionHandshakeMessage)
	if !ok {
		t.Fatalf("unexpected payload type %T", em.Payload)
	}
	return &hs
}

// A peer that announces metadata larger than Config.MaxMetadataSize must never be picked for
// the metadata download, whatever the announced number is.
func TestRainvcReplay(t *testing.T) {
	cfg := DefaultConfig
	cfg.MaxMetadataSize = 1 << 20

	sizes := []int64{
		1<<20 + 1,
		30 << 20,
		1<<31 + 5,
		1<<32 - 1,
		1 << 32,
		1<<32 + 1,
		1<<32 + 16*1024, // more than 4 GiB
		1<<32 + 1<<20,
		1<<33 + 777,
		1<<40 + 32*1024,
		1<<62 + 1000,
	}
	for _, size := range sizes {
		hs := seedHandshakeFromWire(t, size)
		if hs == nil {
			continue
		}
		c1, c2 := net.Pipe()
		pe := peer.New(c1, peersource.Manual, [20]byte{1}, [8]byte{}, mse.PlainText, time.Minute, time.Minute, 10, 1<<20, nil, nil)
		pe.ExtensionHandshake = hs

		tor := &torrent{
			session:         &Session{config: cfg},
			peers:           map[*peer.Peer]struct{}{pe: {}},
			infoDownloaders: make(map[*peer.Peer]*infodownloader.InfoDownloader),
			log:             logger.New("seed"),
		}
		id := tor.nextInfoDownload()
		c1.Close()
		c2.Close()
		if id != nil {
			t.Errorf("peer announced metadata_size=%d (max %d) but a metadata download of %d bytes was started from it",
				size, cfg.MaxMetadataSize, len(id.Bytes))
		}
	}
}

// Sanity: a peer within the limit is used.
func zzUnusedTestSeedMetadataWithinLimitIsFetched(t *testing.T) {
	cfg := DefaultConfig
	cfg.MaxMetadataSize = 1 << 20
	hs := seedHandshakeFromWire(t, 40000)
	if hs == nil {
		t.Fatal("handshake refused")
	}
	c1, c2 := net.Pipe()
	defer c1.Close()
	defer c2.Close()
	pe := peer.New(c1, peersource.Manual, [20]byte{1}, [8]byte{}, mse.PlainText, time.Minute, time.Minute, 10, 1<<20, nil, nil)
	pe.ExtensionHandshake = hs
	tor := &torrent{
		session:         &Session{config: cfg},
		peers:           map[*peer.Peer]struct{}{pe: {}},
		infoDownloaders: make(map[*peer.Peer]*infodownloader.InfoDownloader),
		log:             logger.New("seed"),
	}
	id := tor.nextInfoDownload()
	if id == nil || len(id.Bytes) != 40000 {
		t.Fatalf("honest peer with small metadata was not selected")
	}
}
