// rainvc:pkg internal/resumer/boltdbresumer
// Replay adapter for internal/resumer/boltdbresumer#intx.writable: every change of the resume database is made inside a writable transaction
// (the demonstration of seeded change C14_c). FAILS when the real code violates the clause.
package boltdbresumer

import (
	"path/filepath"
	"reflect"
	"testing"
	"time"

	"go.etcd.io/bbolt"
)

// A record whose tracker list is still in the old flat format (`[]string`, one tracker per
// entry) must load: Read migrates it to the tiered format (one tier per tracker), stores the
// migrated list and returns the rest of the record unchanged. A second Read returns the same.
func TestRainvcReplay(t *testing.T) {
	db, err := bbolt.Open(filepath.Join(t.TempDir(), "resume.db"), 0600, &bbolt.Options{Timeout: time.Second})
	if err != nil {
		t.Fatal(err)
	}
	defer db.Close()
	bucket := []byte("torrents")
	res, err := New(db, bucket)
	if err != nil {
		t.Fatal(err)
	}
	want := &Spec{
		InfoHash:        []byte("01234567890123456789"),
		Port:            50001,
		Name:            "legacy",
		Trackers:        [][]string{{"http://a.example/announce"}, {"udp://b.example:6969"}},
		URLList:         []string{"http://seed.example/file"},
		Info:            []byte("d4:name6:legacye"),
		Bitfield:        []byte{0xf0},
		AddedAt:         time.Date(2019, 3, 4, 5, 6, 7, 0, time.UTC),
		BytesDownloaded: 11,
		BytesUploaded:   22,
		BytesWasted:     33,
		SeededFor:       44 * time.Second,
		Started:         true,
		Version:         1,
	}
	const id = "legacy-torrent"
	if err = res.Write(id, want); err != nil {
		t.Fatal(err)
	}
	// what a database written by an old release holds under the "trackers" key
	err = db.Update(func(tx *bbolt.Tx) error {
		return tx.Bucket(bucket).Bucket([]byte(id)).Put(Keys.Trackers,
			[]byte(`["http://a.example/announce","udp://b.example:6969"]`))
	})
	if err != nil {
		t.Fatal(err)
	}

	for i := 1; i <= 2; i++ {
		got, err := res.Read(id)
		if err != nil {
			t.Fatalf("read %d: record with a flat tracker list does not load: %v", i, err)
		}
		if !got.AddedAt.Equal(want.AddedAt) {
			t.Fatalf("read %d: AddedAt: got %v want %v", i, got.AddedAt, want.AddedAt)
		}
		got.AddedAt = want.AddedAt
		if !reflect.DeepEqual(got, want) {
			t.Fatalf("read %d:\n got %+v\nwant %+v", i, got, want)
		}
	}

	// the migrated list has been stored in the tiered format
	var raw string
	err = db.View(func(tx *bbolt.Tx) error {
		raw = string(tx.Bucket(bucket).Bucket([]byte(id)).Get(Keys.Trackers))
		return nil
	})
	if err != nil {
		t.Fatal(err)
	}
	if raw != `[["http://a.example/announce"],["udp://b.example:6969"]]` {
		t.Fatalf("tracker list after migration: %s", raw)
	}
}
