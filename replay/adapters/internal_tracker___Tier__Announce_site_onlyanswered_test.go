// rainvc:pkg internal/tracker
// Replay adapter for internal/tracker.(*Tier).Announce#site.onlyanswered: a member of a tier is marked as having accepted an announce only when its own Announce returned without error
// (the demonstration of seeded change C15_d). FAILS when the real code violates the clause.
package tracker

import (
	"context"
	"errors"
	"sync"
	"testing"
	"time"
)

// seedMember is a tier member that records the events it is sent. According to its mode it
// accepts the announce, refuses it, or keeps the caller waiting until the caller gives up.
type seedMember struct {
	url string

	mu      sync.Mutex
	mode    string // "ok", "fail", "hang"
	events  []Event
	entered chan struct{}
}

func newSeedMember(url, mode string) *seedMember {
	return &seedMember{url: url, mode: mode, entered: make(chan struct{}, 16)}
}

func (m *seedMember) setMode(mode string) {
	m.mu.Lock()
	m.mode = mode
	m.mu.Unlock()
}

func (m *seedMember) seen() []Event {
	m.mu.Lock()
	defer m.mu.Unlock()
	return append([]Event(nil), m.events...)
}

func (m *seedMember) Announce(ctx context.Context, req AnnounceRequest) (*AnnounceResponse, error) {
	m.mu.Lock()
	m.events = append(m.events, req.Event)
	mode := m.mode
	m.mu.Unlock()
	m.entered <- struct{}{}
	switch mode {
	case "ok":
		return &AnnounceResponse{Interval: time.Hour}, nil
	case "fail":
		return nil, errors.New("connection refused")
	default:
		// A slow tracker: nothing comes back before the caller cancels the announce.
		<-ctx.Done()
		return nil, ctx.Err()
	}
}

func (m *seedMember) URL() string { return m.url }

func seedCount(events []Event, e Event) int {
	n := 0
	for _, x := range events {
		if x == e {
			n++
		}
	}
	return n
}

// seedCancelledAnnounce announces through the tier and cancels the announce while the member
// that is contacted is still busy with it, as the announcer does when the download completes
// or the torrent is stopped while an announce is in flight.
func seedCancelledAnnounce(t *testing.T, tier *Tier, busy *seedMember, e Event) {
	t.Helper()
	ctx, cancel := context.WithCancel(context.Background())
	defer cancel()
	errC := make(chan error, 1)
	go func() {
		_, err := tier.Announce(ctx, AnnounceRequest{Event: e})
		errC <- err
	}()
	select {
	case <-busy.entered:
	case <-time.After(10 * time.Second):
		t.Fatal("the member was not contacted")
	}
	cancel()
	select {
	case err := <-errC:
		if !errors.Is(err, context.Canceled) {
			t.Fatalf("cancelled announce returned %v", err)
		}
	case <-time.After(10 * time.Second):
		t.Fatal("cancelled announce did not return")
	}
}

// A tier with one slow member. The only announce of the run is cancelled by the caller before
// the tracker has answered. No tracker has accepted anything, so nobody is told "stopped".
func zzUnusedTestSeedTierStoppedAfterCancelledStart(t *testing.T) {
	a := newSeedMember("a", "hang")
	tier := &Tier{Trackers: []Tracker{a}}

	seedCancelledAnnounce(t, tier, a, EventStarted)

	a.setMode("ok")
	_, err := tier.Announce(context.Background(), AnnounceRequest{Event: EventStopped})
	if err == nil {
		t.Errorf("stopped announce reports success although no member had accepted an announce")
	}
	if n := seedCount(a.seen(), EventStopped); n != 0 {
		t.Errorf("member a never accepted an announce but was sent %d stopped event(s): %v", n, a.seen())
	}
}

// Failover followed by a cancelled announce: a accepts "started", later refuses a regular
// announce so the tier moves on to b; the announce to b is cancelled by the caller while b is
// still busy. Only a has accepted an announce in this run: "stopped" goes to a, not to b.
func TestRainvcReplay(t *testing.T) {
	a := newSeedMember("a", "ok")
	b := newSeedMember("b", "hang")
	tier := &Tier{Trackers: []Tracker{a, b}}
	ctx := context.Background()

	if _, err := tier.Announce(ctx, AnnounceRequest{Event: EventStarted}); err != nil {
		t.Fatal(err)
	}
	a.setMode("fail")
	if _, err := tier.Announce(ctx, AnnounceRequest{Event: EventNone}); err == nil {
		t.Fatal("announce to a failing member succeeded")
	}
	if tier.URL() != "b" {
		t.Fatalf("tier did not move on to b: %s", tier.URL())
	}

	seedCancelledAnnounce(t, tier, b, EventNone)
	if tier.URL() != "b" {
		t.Fatalf("a cancelled announce must not rotate the tier: %s", tier.URL())
	}

	a.setMode("ok")
	b.setMode("ok")
	if _, err := tier.Announce(ctx, AnnounceRequest{Event: EventStopped}); err != nil {
		t.Fatalf("stopped announce: %v", err)
	}
	if n := seedCount(a.seen(), EventStopped); n != 1 {
		t.Errorf("member a accepted an announce and must be told stopped once, got %d: %v", n, a.seen())
	}
	if n := seedCount(b.seen(), EventStopped); n != 0 {
		t.Errorf("member b never accepted an announce but was sent %d stopped event(s): %v", n, b.seen())
	}

}
