// rainvc:pkg torrent
package torrent

// Replay adapter for (*torrent).handlePeerMessage#site.have: a message of a peer that has
// already been closed (still queued when the peer was dropped) is not acted upon: it must not
// put the disconnected peer back into the piece picker.
// FAILS when the real code violates the clause.

import (
	"net"
	"os"
	"testing"
	"time"

	"github.com/cenkalti/rain/v2/internal/allocator"
	"github.com/cenkalti/rain/v2/internal/bitfield"
	"github.com/cenkalti/rain/v2/internal/peer"
	"github.com/cenkalti/rain/v2/internal/piece"
	"github.com/cenkalti/rain/v2/internal/piecepicker"
	"github.com/cenkalti/rain/v2/internal/storage"
	"github.com/cenkalti/rain/v2/internal/peerprotocol"
	"github.com/cenkalti/rain/v2/internal/peersource"
)

type rainvcAddrConn struct{ net.Conn }

func (c rainvcAddrConn) RemoteAddr() net.Addr { return &net.TCPAddr{IP: net.IPv4(9, 9, 9, 9), Port: 2} }
func (c rainvcAddrConn) LocalAddr() net.Addr  { return &net.TCPAddr{IP: net.IPv4(127, 0, 0, 1), Port: 1} }

func TestRainvcReplay(t *testing.T) {
	s := newTestSession(t)
	f, err := os.Open(torrentFile)
	if err != nil {
		t.Fatal(err)
	}
	defer f.Close()
	tor, err := s.AddTorrent(f, &AddTorrentOptions{Stopped: true})
	if err != nil {
		t.Fatal(err)
	}
	tt := tor.torrent
	// the state of a running torrent that has its metadata: pieces, bitfield and piece picker
	var files []allocator.File
	for _, fi := range tt.info.Files {
		files = append(files, allocator.File{Storage: storage.NewPaddingFile(fi.Length), Name: fi.Path, Padding: fi.Padding})
	}
	tt.pieces = piece.NewPieces(tt.info, files)
	tt.bitfield = bitfield.New(tt.info.NumPieces)
	tt.piecePicker = piecepicker.New(tt.pieces, 2, nil, false)
	a, b := net.Pipe()
	defer a.Close()
	defer b.Close()
	pe := peer.New(rainvcAddrConn{a}, peersource.Manual, [20]byte{7}, [8]byte{}, 0, time.Minute, time.Minute, 10, 1<<20, nil, nil)
	pe.Bitfield = bitfield.New(tt.info.NumPieces)
	// the peer was dropped (closePeer ran: it is out of t.peers and of the picker) while one of
	// its messages was still queued for the torrent
	pe.Closed = true
	before := tt.piecePicker.Available()
	done := make(chan struct{})
	go func() {
		defer close(done)
		tt.handlePeerMessage(peer.Message{Peer: pe, Message: peerprotocol.HaveMessage{Index: 0}})
	}()
	select {
	case <-done:
	case <-time.After(2 * time.Second):
	}
	if after := tt.piecePicker.Available(); after != before {
		t.Fatalf("violation reproduced: a have message of an already closed peer was acted upon: available pieces went from %d to %d although no connected peer has any piece", before, after)
	}
}
