// rainvc:pkg torrent
// Replay adapter for (*torrent).dialAddresses#site.blk.anchor / site.notblocked: an address is
// checked against the blocklist when it is dialed, not only when it was queued. History: two
// addresses queued, the dial slot held by the first, the blocklist reloaded with the second
// address, the first handshake fails and frees the slot.
// FAILS when the real code violates the clause.
package torrent

import (
	"net"
	"os"
	"strings"
	"sync"
	"testing"
	"time"
)

type zzHoldListener struct {
	l      net.Listener
	mu     sync.Mutex
	conns  []net.Conn
	reject bool
}

func newZZHold(t *testing.T, ip string) *zzHoldListener {
	l, err := net.Listen("tcp4", ip+":0")
	if err != nil {
		t.Skip("cannot listen on", ip, err)
	}
	h := &zzHoldListener{l: l}
	go func() {
		for {
			c, err := l.Accept()
			if err != nil {
				return
			}
			h.mu.Lock()
			if h.reject {
				c.Close()
			} else {
				h.conns = append(h.conns, c)
			}
			h.mu.Unlock()
		}
	}()
	return h
}
func (h *zzHoldListener) count() int { h.mu.Lock(); defer h.mu.Unlock(); return len(h.conns) }
func (h *zzHoldListener) drop() {
	h.mu.Lock()
	defer h.mu.Unlock()
	h.reject = true
	for _, c := range h.conns {
		c.Close()
	}
}
func (h *zzHoldListener) addr() *net.TCPAddr { return h.l.Addr().(*net.TCPAddr) }
func TestRainvcReplay(t *testing.T) {
	s := newTestSession(t)
	s.config.TrackerStopTimeout = 100 * time.Millisecond
	s.config.MaxPeerDial = 1
	defer time.Sleep(300 * time.Millisecond)
	h1, h2 := newZZHold(t, "127.0.0.2"), newZZHold(t, "127.0.0.3")
	defer h1.l.Close()
	defer h2.l.Close()
	defer h1.drop()
	defer h2.drop()
	f, err := os.Open(torrentFile)
	if err != nil {
		t.Fatal(err)
	}
	defer f.Close()
	tor, err := s.AddTorrent(f, &AddTorrentOptions{Stopped: true})
	if err != nil {
		t.Fatal(err)
	}
	tor.torrent.trackers = nil
	if err := tor.Start(); err != nil {
		t.Fatal(err)
	}
	deadline := time.Now().Add(10 * time.Second)
	for tor.Stats().Status != Downloading {
		if time.Now().After(deadline) {
			t.Fatalf("status %v", tor.Stats().Status)
		}
		time.Sleep(5 * time.Millisecond)
	}
	tor.torrent.AddPeers([]*net.TCPAddr{h1.addr(), h2.addr()})
	for h1.count()+h2.count() == 0 {
		if time.Now().After(deadline) {
			t.Fatal("nothing dialed")
		}
		time.Sleep(5 * time.Millisecond)
	}
	time.Sleep(50 * time.Millisecond)
	if h1.count()+h2.count() != 1 {
		t.Fatalf("expected one dial: %d %d", h1.count(), h2.count())
	}
	first, second := h1, h2
	if h2.count() == 1 {
		first, second = h2, h1
	}
	if _, err := s.blocklist.Reload(strings.NewReader(second.addr().IP.String() + "/32\n")); err != nil {
		t.Fatal(err)
	}
	first.drop()
	time.Sleep(500 * time.Millisecond)
	if second.count() != 0 {
		t.Errorf("violation reproduced: %s was dialed after the reloaded blocklist blocked it", second.addr())
	}
	_ = tor.Stop()
}
