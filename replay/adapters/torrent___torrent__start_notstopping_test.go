// rainvc:pkg torrent
package torrent

// Replay adapter for (*torrent).start#notstopping: a start command given while the torrent
// is Stopping (announcing "stopped" to a slow tracker) takes effect: it is not silently
// dropped, leaving the torrent stopped although it was asked (and recorded) to run.
// FAILS when the real code violates the clause.

import (
	"net/http"
	"net/http/httptest"
	"os"
	"testing"
	"time"
)

func TestRainvcReplay(t *testing.T) {
	release := make(chan struct{})
	srv := httptest.NewServer(http.HandlerFunc(func(w http.ResponseWriter, r *http.Request) {
		if r.URL.Query().Get("event") == "stopped" {
			select {
			case <-release:
			case <-r.Context().Done():
			}
			return
		}
		_, _ = w.Write([]byte("d8:intervali1800e5:peers0:e"))
	}))
	defer srv.Close()
	defer close(release)
	s := newTestSession(t)
	f, err := os.Open(torrentFile)
	if err != nil {
		t.Fatal(err)
	}
	defer f.Close()
	tor, err := s.AddTorrent(f, &AddTorrentOptions{Stopped: true})
	if err != nil {
		t.Fatal(err)
	}
	if err := tor.AddTracker(srv.URL + "/announce"); err != nil {
		t.Fatal(err)
	}
	waitFor := func(what string, ok func() bool) {
		deadline := time.Now().Add(10 * time.Second)
		for !ok() {
			if time.Now().After(deadline) {
				t.Fatalf("timed out waiting for %s (status %v)", what, tor.Stats().Status)
			}
			time.Sleep(10 * time.Millisecond)
		}
	}
	if err := tor.Start(); err != nil {
		t.Fatal(err)
	}
	waitFor("an accepted announce", func() bool {
		for _, tr := range tor.Trackers() {
			if tr.Status == Working {
				return true
			}
		}
		return false
	})
	if err := tor.Stop(); err != nil {
		t.Fatal(err)
	}
	waitFor("the Stopping state", func() bool { return tor.Stats().Status == Stopping })
	if err := tor.Start(); err != nil {
		t.Fatal(err)
	}
	time.Sleep(500 * time.Millisecond)
	if st := tor.Stats().Status; st == Stopping || st == Stopped {
		t.Fatalf("violation reproduced: Start() given in the Stopping state returned nil but the torrent is %v half a second later: the command was dropped", st)
	}
}
