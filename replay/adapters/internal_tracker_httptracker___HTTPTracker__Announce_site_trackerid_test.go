// rainvc:pkg internal/tracker/httptracker
// Replay adapter for (*HTTPTracker).Announce#site.trackerid: the tracker id from a reply goes
// into the next request escaped. Replies with the tracker ids "a\nb" (every later request fails
// inside the client: invalid control character in URL) and "x&event=stopped#" (a regular
// announce arrives as a stopped event, the key is lost to the fragment).
// FAILS when the real code violates the clause.
package httptracker

import (
	"context"
	"github.com/cenkalti/rain/v2/internal/tracker"
	"net/http"
	"net/http/httptest"
	"net/url"
	"strconv"
	"sync"
	"testing"
	"time"
)

func zzAnnounceTo(t *testing.T, reply func(n int) string) (*HTTPTracker, func() []url.Values) {
	var mu sync.Mutex
	var qs []url.Values
	srv := httptest.NewServer(http.HandlerFunc(func(w http.ResponseWriter, r *http.Request) {
		mu.Lock()
		qs = append(qs, r.URL.Query())
		n := len(qs)
		mu.Unlock()
		_, _ = w.Write([]byte(reply(n)))
	}))
	t.Cleanup(srv.Close)
	u, _ := url.Parse(srv.URL + "/announce")
	return New(srv.URL+"/announce", u, 5*time.Second, &http.Transport{}, "zz", 1<<20), func() []url.Values { mu.Lock(); defer mu.Unlock(); return append([]url.Values(nil), qs...) }
}
func TestRainvcReplay(t *testing.T) {
	t.Run("control bytes", zzPoison)
	t.Run("injected parameters", zzEscaped)
}

func zzPoison(t *testing.T) {
	id := "a\nb"
	trk, queries := zzAnnounceTo(t, func(int) string {
		return "d8:intervali1800e5:peers0:10:tracker id" + strconv.Itoa(len(id)) + ":" + id + "e"
	})
	if _, err := trk.Announce(context.Background(), tracker.AnnounceRequest{Event: tracker.EventStarted}); err != nil {
		t.Fatal(err)
	}
	for i := 0; i < 3; i++ {
		if _, err := trk.Announce(context.Background(), tracker.AnnounceRequest{}); err != nil {
			t.Errorf("violation reproduced: announce %d never left the client: %v", i+2, err)
		}
	}
	if n := len(queries()); n != 4 {
		t.Errorf("violation reproduced: tracker saw %d of 4 announces", n)
	}
}
func zzEscaped(t *testing.T) {
	id := "x&event=stopped#"
	trk, queries := zzAnnounceTo(t, func(int) string {
		return "d8:intervali1800e5:peers0:10:tracker id" + strconv.Itoa(len(id)) + ":" + id + "e"
	})
	var pid [20]byte
	copy(pid[:], "-RN0.0.0-abcdefghijkl")
	req := tracker.AnnounceRequest{Torrent: tracker.Torrent{PeerID: pid, Port: 6881}}
	for i := 0; i < 2; i++ {
		if _, err := trk.Announce(context.Background(), req); err != nil {
			t.Fatal(err)
		}
	}
	q := queries()[1]
	if q.Get("trackerid") != id || len(q["event"]) != 0 || q.Get("key") == "" {
		t.Errorf("violation reproduced: regular announce: trackerid=%q event=%q key=%q", q.Get("trackerid"), q["event"], q.Get("key"))
	}
}
