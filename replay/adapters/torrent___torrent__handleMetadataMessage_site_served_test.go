// rainvc:pkg torrent
package torrent

// Replay adapter for (*torrent).handleMetadataMessage#site.served: the data sent for a metadata
// request is the piece that was asked for. Requests for pieces 262143, 262144 and 524288 of a
// small metadata: the index times 16 KiB does not fit into 32 bits and wrapped to piece 0.
// FAILS when the real code violates the clause.

import (
	"encoding/binary"
	"io"
	"net"
	"os"
	"testing"
	"time"

	"github.com/cenkalti/rain/v2/internal/peer"
	"github.com/cenkalti/rain/v2/internal/peerprotocol"
	"github.com/cenkalti/rain/v2/internal/peersource"
)

type zzConn struct{ net.Conn }

func (zzConn) RemoteAddr() net.Addr { return &net.TCPAddr{IP: net.IPv4(9, 9, 9, 9), Port: 2} }
func zzStoppedTorrent(t *testing.T) *torrent {
	s := newTestSession(t)
	f, err := os.Open(torrentFile)
	if err != nil {
		t.Fatal(err)
	}
	defer f.Close()
	tor, err := s.AddTorrent(f, &AddTorrentOptions{Stopped: true})
	if err != nil {
		t.Fatal(err)
	}
	return tor.torrent
}
func TestRainvcReplay(t *testing.T) {
	tt := zzStoppedTorrent(t)
	a, b := net.Pipe()
	defer b.Close()
	var ext [8]byte
	ext[5] |= 0x10
	pe := peer.New(zzConn{a}, peersource.Manual, [20]byte{7}, ext, 0, time.Minute, time.Minute, 10, 1<<20, nil, nil)
	go pe.Run(make(chan peer.Message, 16), make(chan peer.PieceMessage, 16), make(chan *peer.Peer, 1), make(chan *peer.Peer, 1))
	defer pe.Close()
	pe.ExtensionHandshake = &peerprotocol.ExtensionHandshakeMessage{M: map[string]uint8{"ut_metadata": 3}}
	for _, idx := range []uint32{262143, 262144, 524288} {
		go tt.handleMetadataMessage(pe, peerprotocol.ExtensionMetadataMessage{Type: peerprotocol.ExtensionMetadataMessageTypeRequest, Piece: idx})
		_ = b.SetReadDeadline(time.Now().Add(2 * time.Second))
		var l uint32
		if err := binary.Read(b, binary.BigEndian, &l); err != nil {
			t.Fatal(err)
		}
		x := make([]byte, l)
		if _, err := io.ReadFull(b, x); err != nil {
			t.Fatal(err)
		}
		x[1] = peerprotocol.ExtensionIDMetadata
		var em peerprotocol.ExtensionMessage
		if err := em.UnmarshalBinary(x[1:]); err != nil {
			t.Fatal(err)
		}
		mm := em.Payload.(peerprotocol.ExtensionMetadataMessage)
		if mm.Type != peerprotocol.ExtensionMetadataMessageTypeReject {
			t.Errorf("violation reproduced: metadata piece %d requested (metadata has %d bytes): got msg_type %d piece %d with %d data bytes, want reject", idx, len(tt.info.Bytes), mm.Type, mm.Piece, len(mm.Data))
		}
	}
}
