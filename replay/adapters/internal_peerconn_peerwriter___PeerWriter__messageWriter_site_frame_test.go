// rainvc:pkg internal/peerconn/peerwriter
package peerwriter

// Replay adapter for (*PeerWriter).messageWriter#site.frame: every message put on
// the connection starts with the 4-byte big-endian length of what follows and the
// message id, for bodies of every size (including bodies that outgrow the
// writer's fixed array). FAILS when the real code violates the clause.

import (
	"encoding/binary"
	"io"
	"net"
	"testing"
	"time"

	"github.com/cenkalti/rain/v2/internal/logger"
	"github.com/cenkalti/rain/v2/internal/peerprotocol"
)

func TestRainvcReplay(t *testing.T) {
	a, b := net.Pipe()
	defer a.Close()
	defer b.Close()
	pw := New(a, logger.New("rainvc"), 250, true, nil)
	go pw.Run()
	defer pw.Stop()
	sizes := []int{0, 1, 100, 16384 - 60, 16384, 20000}
	go func() {
		for _, n := range sizes {
			pw.SendMessage(peerprotocol.ExtensionMessage{
				ExtendedMessageID: peerprotocol.ExtensionIDMetadata,
				Payload: peerprotocol.ExtensionMetadataMessage{
					Type:      peerprotocol.ExtensionMetadataMessageTypeData,
					Piece:     7,
					TotalSize: n,
					Data:      make([]byte, n),
				},
			})
			pw.SendMessage(peerprotocol.HaveMessage{Index: uint32(n)})
		}
	}()
	_ = b.SetReadDeadline(time.Now().Add(20 * time.Second))
	for _, n := range sizes {
		for k, wantID := range []byte{20, 4} {
			var hdr [5]byte
			if _, err := io.ReadFull(b, hdr[:]); err != nil {
				t.Fatalf("reading header: %v", err)
			}
			l := binary.BigEndian.Uint32(hdr[:4])
			if hdr[4] != wantID || l == 0 || l > 1<<20 {
				t.Fatalf("violation reproduced: message %d of data size %d: header bytes % x (want id %d and a length that frames the body)", k, n, hdr, wantID)
			}
			body := make([]byte, l-1)
			if _, err := io.ReadFull(b, body); err != nil {
				t.Fatalf("violation reproduced: data size %d: length prefix %d does not frame the body: %v", n, l, err)
			}
			if wantID == 20 && int(l) < 2+n {
				t.Fatalf("violation reproduced: extension message with %d data bytes framed with length %d", n, l)
			}
			if wantID == 4 && (l != 5 || binary.BigEndian.Uint32(body) != uint32(n)) {
				t.Fatalf("violation reproduced: have message framed with length %d body % x", l, body)
			}
		}
	}
}
