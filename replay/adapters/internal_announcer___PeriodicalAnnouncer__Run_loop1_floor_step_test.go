// rainvc:pkg internal/announcer
// Replay adapter for (*PeriodicalAnnouncer).Run#loop1.floor.step: a reply's "min interval" never
// lowers the client's own minimum announce interval. Reply: interval 1 h, min interval 20 ms;
// client minimum 2 s; the torrent keeps asking for more peers.
// FAILS when the real code violates the clause.
package announcer

import (
	"context"
	"github.com/cenkalti/rain/v2/internal/logger"
	"github.com/cenkalti/rain/v2/internal/tracker"
	"net"
	"sync"
	"testing"
	"time"
)

type zzRecTracker struct {
	mu     sync.Mutex
	events []tracker.Event
	reply  func(n int, ctx context.Context) (*tracker.AnnounceResponse, error)
}

func (f *zzRecTracker) Announce(ctx context.Context, req tracker.AnnounceRequest) (*tracker.AnnounceResponse, error) {
	f.mu.Lock()
	f.events = append(f.events, req.Event)
	n := len(f.events)
	f.mu.Unlock()
	return f.reply(n, ctx)
}
func (f *zzRecTracker) URL() string { return "http://zz/announce" }
func (f *zzRecTracker) seen() []tracker.Event {
	f.mu.Lock()
	defer f.mu.Unlock()
	return append([]tracker.Event(nil), f.events...)
}
func TestRainvcReplay(t *testing.T) {
	trk := &zzRecTracker{reply: func(int, context.Context) (*tracker.AnnounceResponse, error) {
		return &tracker.AnnounceResponse{Interval: time.Hour, MinInterval: 20 * time.Millisecond}, nil
	}}
	newPeers := make(chan []*net.TCPAddr, 1000)
	a := NewPeriodicalAnnouncer(trk, 50, 2*time.Second, func() tracker.Torrent { return tracker.Torrent{} }, make(chan struct{}), newPeers, logger.New("zz"))
	go a.Run()
	stop := time.After(time.Second)
loop:
	for {
		select {
		case <-newPeers:
			a.NeedMorePeers(true)
		case <-stop:
			break loop
		}
	}
	a.Close()
	if n := len(trk.seen()); n > 2 {
		t.Errorf("violation reproduced: %d announces in 1 s; client minimum 2 s, tracker interval 1 h", n)
	}
}
