// rainvc:pkg torrent
package torrent

// Replay adapter for (*torrent).handleAllocationDone#site.recheck: no download is started
// while a re-check is pending. History: Verify() on a stopped torrent that has no files on
// disk; then Stop().
// FAILS when the real code violates the clause.

import (
	"os"
	"testing"
	"time"
)

func TestRainvcReplay(t *testing.T) {
	s := newTestSession(t)
	s.config.TrackerStopTimeout = 100 * time.Millisecond
	defer time.Sleep(300 * time.Millisecond)
	f, err := os.Open(torrentFile)
	if err != nil {
		t.Fatal(err)
	}
	defer f.Close()
	tor, err := s.AddTorrent(f, &AddTorrentOptions{Stopped: true})
	if err != nil {
		t.Fatal(err)
	}
	tor.torrent.trackers = nil
	if err := tor.Verify(); err != nil {
		t.Fatal(err)
	}
	// The verification request must end with the torrent stopped.
	deadline := time.Now().Add(1500 * time.Millisecond)
	var st Status
	for time.Now().Before(deadline) {
		st = tor.Stats().Status
		if st == Downloading {
			break
		}
		time.Sleep(10 * time.Millisecond)
	}
	if st == Downloading {
		_ = tor.Stop()
		time.Sleep(500 * time.Millisecond)
		after := tor.Stats().Status
		_ = tor.torrent // keep
		if after != Stopped {
			tor.torrent.doVerify = false
			_ = tor.Stop()
			time.Sleep(300 * time.Millisecond)
		}
		t.Fatalf("violation reproduced: Verify() on a stopped torrent without data started a download (status Downloading); a Stop() after it left the torrent %v", after)
	}
	if st != Stopped {
		t.Fatalf("violation reproduced: the verification request did not end with the torrent stopped (status %v)", st)
	}
}
