// rainvc:pkg internal/trackermanager
// Replay adapter for trackermanager.New#site.perannounce and (*Transport).Run#site.reloaded: after
// a blocklist reload no announce reaches a tracker whose address is now blocked - not over a
// kept-alive HTTP connection, not over the UDP address resolved earlier.
// FAILS when the real code violates the clause.
package trackermanager

import (
	"context"
	"encoding/binary"
	"github.com/cenkalti/rain/v2/internal/blocklist"
	"github.com/cenkalti/rain/v2/internal/tracker"
	"net"
	"net/http"
	"net/http/httptest"
	"strings"
	"sync/atomic"
	"testing"
	"time"
)

func TestRainvcReplay(t *testing.T) {
	t.Run("http", zzHTTP)
	t.Run("udp", zzUDP)
}

func zzHTTP(t *testing.T) {
	var hits atomic.Int32
	srv := httptest.NewServer(http.HandlerFunc(func(w http.ResponseWriter, r *http.Request) {
		hits.Add(1)
		_, _ = w.Write([]byte("d8:intervali1800e5:peers0:e"))
	}))
	defer srv.Close()
	bl := blocklist.New()
	m := New(bl, time.Second, false)
	defer m.Close()
	trk, err := m.Get(srv.URL+"/announce", 5*time.Second, "zz", 1<<20)
	if err != nil {
		t.Fatal(err)
	}
	if _, err = trk.Announce(context.Background(), tracker.AnnounceRequest{Event: tracker.EventStarted}); err != nil {
		t.Fatal(err)
	}
	if _, err = bl.Reload(strings.NewReader("127.0.0.0/8\n")); err != nil {
		t.Fatal(err)
	}
	_, err = trk.Announce(context.Background(), tracker.AnnounceRequest{})
	if err == nil || hits.Load() != 1 {
		t.Errorf("violation reproduced: announce went to a blocked address after reload: err=%v, tracker saw %d", err, hits.Load())
	}
}
func zzUDP(t *testing.T) {
	pc, err := net.ListenPacket("udp4", "127.0.0.1:0")
	if err != nil {
		t.Fatal(err)
	}
	defer pc.Close()
	var announces atomic.Int32
	go func() {
		buf := make([]byte, 2048)
		for {
			n, addr, err := pc.ReadFrom(buf)
			if err != nil {
				return
			}
			if n < 16 {
				continue
			}
			tid := buf[12:16]
			switch binary.BigEndian.Uint32(buf[8:12]) {
			case 0:
				out := make([]byte, 16)
				copy(out[4:8], tid)
				binary.BigEndian.PutUint64(out[8:], 42)
				_, _ = pc.WriteTo(out, addr)
			case 1:
				announces.Add(1)
				out := make([]byte, 20)
				binary.BigEndian.PutUint32(out[0:4], 1)
				copy(out[4:8], tid)
				binary.BigEndian.PutUint32(out[8:12], 1800)
				_, _ = pc.WriteTo(out, addr)
			}
		}
	}()
	bl := blocklist.New()
	m := New(bl, time.Second, false)
	defer m.Close()
	trk, err := m.Get("udp://"+pc.LocalAddr().String()+"/announce", 5*time.Second, "zz", 1<<20)
	if err != nil {
		t.Fatal(err)
	}
	ctx, cancel := context.WithTimeout(context.Background(), 3*time.Second)
	defer cancel()
	if _, err = trk.Announce(ctx, tracker.AnnounceRequest{Event: tracker.EventStarted}); err != nil {
		t.Fatal(err)
	}
	if _, err = bl.Reload(strings.NewReader("127.0.0.0/8\n")); err != nil {
		t.Fatal(err)
	}
	_, err = trk.Announce(ctx, tracker.AnnounceRequest{})
	if err == nil || announces.Load() != 1 {
		t.Errorf("violation reproduced: UDP announce to blocked address after reload: err=%v saw %d", err, announces.Load())
	}
}
