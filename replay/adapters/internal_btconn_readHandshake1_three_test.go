// rainvc:pkg internal/btconn
// Replay adapter for internal/btconn.readHandshake1#three: the handshake is read by full reads, however the transport fragments it
// (the demonstration of seeded change C11_e). FAILS when the real code violates the clause.
package btconn

import (
	"bytes"
	"io"
	"net"
	"testing"
	"time"
)

// seedChunkReader hands out the stream in reads of at most n bytes, the way a
// TCP connection may deliver a handshake that was split into several segments.
type seedChunkReader struct {
	r io.Reader
	n int
}

func (c *seedChunkReader) Read(p []byte) (int, error) {
	if len(p) > c.n {
		p = p[:c.n]
	}
	return c.r.Read(p)
}

// TestSeedHandshakeRoundTripFragmented writes a handshake with writeHandshake and reads it back
// with readHandshake1/readHandshake2 for every fragment size: the decoded fields must be the
// emitted ones however the stream is cut.
func TestRainvcReplay(t *testing.T) {
	var ih, id [20]byte
	for i := range ih {
		ih[i] = byte(0xA0 + i)
		id[i] = byte(0x40 + i)
	}
	ext := [8]byte{0x80, 0, 0, 0, 0, 0x10, 0, 0x05}

	var out bytes.Buffer
	if err := writeHandshake(&out, ih, id, ext); err != nil {
		t.Fatal(err)
	}
	if out.Len() != 68 {
		t.Fatalf("handshake length: %d", out.Len())
	}
	for size := 1; size <= 68; size++ {
		r := &seedChunkReader{r: bytes.NewReader(out.Bytes()), n: size}
		gotExt, gotIH, err := readHandshake1(r)
		if err != nil {
			t.Fatalf("fragment size %d: readHandshake1: %v", size, err)
		}
		gotID, err := readHandshake2(r)
		if err != nil {
			t.Fatalf("fragment size %d: readHandshake2: %v", size, err)
		}
		if gotExt != ext {
			t.Errorf("fragment size %d: extensions %x, want %x", size, gotExt, ext)
		}
		if gotIH != ih {
			t.Errorf("fragment size %d: info hash %x, want %x", size, gotIH, ih)
		}
		if gotID != id {
			t.Errorf("fragment size %d: peer id %x, want %x", size, gotID, id)
		}
	}
}

// TestSeedAcceptSplitHandshake drives Accept over a pipe with a remote that sends its handshake
// in two segments, the cut falling inside the reserved bytes.
func zzUnusedTestSeedAcceptSplitHandshake(t *testing.T) {
	var ih, ourID, peerID [20]byte
	for i := range ih {
		ih[i] = byte(0xA0 + i)
		ourID[i] = byte(0x40 + i)
		peerID[i] = byte(0x60 + i)
	}
	peerExt := [8]byte{0, 0, 0, 0, 0, 0x10, 0, 0x05}
	ourExt := [8]byte{0, 0, 0, 0, 0, 0x10, 0, 0x04}

	var hs bytes.Buffer
	if err := writeHandshake(&hs, ih, peerID, peerExt); err != nil {
		t.Fatal(err)
	}

	local, remote := net.Pipe()
	defer local.Close()
	defer remote.Close()

	// net.Pipe is synchronous: drain what Accept writes while the handshake is being sent.
	go func() { _, _ = io.Copy(io.Discard, remote) }()
	go func() {
		b := hs.Bytes()
		_, _ = remote.Write(b[:23]) // pstr + 3 of the 8 reserved bytes
		_, _ = remote.Write(b[23:])
	}()

	type result struct {
		ext [8]byte
		id  [20]byte
		ih  [20]byte
		err error
	}
	resC := make(chan result, 1)
	go func() {
		var res result
		_, _, res.ext, res.id, res.ih, res.err = Accept(&seedTCPConn{local}, 5*time.Second, nil, false, func(h [20]byte) bool { return h == ih }, ourExt, ourID)
		resC <- res
	}()

	select {
	case res := <-resC:
		if res.err != nil {
			t.Fatalf("Accept: %v", res.err)
		}
		if res.ext != peerExt {
			t.Errorf("extensions %x, want %x", res.ext, peerExt)
		}
		if res.ih != ih {
			t.Errorf("info hash %x, want %x", res.ih, ih)
		}
		if res.id != peerID {
			t.Errorf("peer id %x, want %x", res.id, peerID)
		}
	case <-time.After(10 * time.Second):
		t.Fatal("Accept did not return")
	}
}

// seedTCPConn gives the pipe end a TCP-looking remote address for the logger.
type seedTCPConn struct{ net.Conn }

func (c *seedTCPConn) RemoteAddr() net.Addr {
	return &net.TCPAddr{IP: net.IPv4(127, 0, 0, 1), Port: 6881}
}
