// rainvc:pkg internal/mse
// Replay adapter for internal/mse.(*Stream).HandshakeIncoming#site.payload: the initial payload is read completely, however the transport fragments it
// (the demonstration of seeded change C12_c). FAILS when the real code violates the clause.
package mse

import (
	"bytes"
	"fmt"
	"io"
	"sync"
	"testing"
	"time"
)

// seedQueue is an unbounded byte queue: Write never blocks (like a socket with a
// large send buffer), Read blocks until at least one byte is available.
type seedQueue struct {
	mu     sync.Mutex
	cond   *sync.Cond
	buf    []byte
	closed bool
}

func newSeedQueue() *seedQueue {
	q := &seedQueue{}
	q.cond = sync.NewCond(&q.mu)
	return q
}

func (q *seedQueue) write(b []byte) (int, error) {
	q.mu.Lock()
	defer q.mu.Unlock()
	if q.closed {
		return 0, io.ErrClosedPipe
	}
	q.buf = append(q.buf, b...)
	q.cond.Broadcast()
	return len(b), nil
}

func (q *seedQueue) read(b []byte) (int, error) {
	q.mu.Lock()
	defer q.mu.Unlock()
	for len(q.buf) == 0 && !q.closed {
		q.cond.Wait()
	}
	if len(q.buf) == 0 {
		return 0, io.EOF
	}
	n := copy(b, q.buf)
	q.buf = q.buf[n:]
	return n, nil
}

func (q *seedQueue) close() {
	q.mu.Lock()
	q.closed = true
	q.cond.Broadcast()
	q.mu.Unlock()
}

// seedChunkedEnd is one end of an in-memory duplex transport whose Read never
// returns more than max bytes at once, like a TCP connection that delivers the
// peer's writes in small segments.
type seedChunkedEnd struct {
	in, out *seedQueue
	max     int
}

func (e *seedChunkedEnd) Read(b []byte) (int, error) {
	if len(b) > e.max {
		b = b[:e.max]
	}
	return e.in.read(b)
}

func (e *seedChunkedEnd) Write(b []byte) (int, error) { return e.out.write(b) }

func (e *seedChunkedEnd) Close() error {
	e.in.close()
	e.out.close()
	return nil
}

func seedChunkedPair(max int) (*seedChunkedEnd, *seedChunkedEnd) {
	q1, q2 := newSeedQueue(), newSeedQueue()
	return &seedChunkedEnd{in: q1, out: q2, max: max}, &seedChunkedEnd{in: q2, out: q1, max: max}
}

func seedPattern(n int, salt byte) []byte {
	b := make([]byte, n)
	for i := range b {
		b[i] = byte(i*7) ^ salt ^ byte(i>>8)
		if b[i] == 0 {
			b[i] = 0xA5
		}
	}
	return b
}

// Every byte written by the initiator, the initial payload included, must be read
// unchanged by the receiver whatever the fragmentation of the transport is.
func TestRainvcReplay(t *testing.T) {
	sKey := []byte("seed-c12-stream-key")
	for _, chunk := range []int{1, 7, 64, 1 << 20} {
		for _, lenIA := range []int{0, 1, 68, 300, 5000} {
			name := fmt.Sprintf("chunk=%d/ia=%d", chunk, lenIA)
			t.Run(name, func(t *testing.T) {
				ca, cb := seedChunkedPair(chunk)
				defer ca.Close()
				defer cb.Close()
				a := NewStream(ca)
				b := NewStream(cb)

				ia := seedPattern(lenIA, 0x11)
				msgA := seedPattern(257, 0x22) // written by A after the handshake
				msgB := seedPattern(129, 0x33) // written by B after the handshake

				type result struct {
					got []byte
					err error
				}
				resA := make(chan result, 1)
				resB := make(chan result, 1)

				go func() {
					selected, err := a.HandshakeOutgoing(sKey, RC4, ia)
					if err != nil {
						resA <- result{nil, fmt.Errorf("outgoing handshake: %w", err)}
						return
					}
					if selected != RC4 {
						resA <- result{nil, fmt.Errorf("selected %v", selected)}
						return
					}
					if _, err = a.Write(msgA); err != nil {
						resA <- result{nil, fmt.Errorf("write: %w", err)}
						return
					}
					got := make([]byte, len(msgB))
					_, err = io.ReadFull(a, got)
					resA <- result{got, err}
				}()
				go func() {
					err := b.HandshakeIncoming(
						func(h [20]byte) []byte {
							if h == HashSKey(sKey) {
								return sKey
							}
							return nil
						},
						func(provided CryptoMethod) CryptoMethod { return provided & RC4 },
					)
					if err != nil {
						resB <- result{nil, fmt.Errorf("incoming handshake: %w", err)}
						return
					}
					if _, err = b.Write(msgB); err != nil {
						resB <- result{nil, fmt.Errorf("write: %w", err)}
						return
					}
					got := make([]byte, len(ia)+len(msgA))
					_, err = io.ReadFull(b, got)
					resB <- result{got, err}
				}()

				timeout := time.After(10 * time.Second)
				var ra, rb result
				for i := 0; i < 2; i++ {
					select {
					case ra = <-resA:
						resA = nil
					case rb = <-resB:
						resB = nil
					case <-timeout:
						t.Fatal("timeout")
					}
				}
				if ra.err != nil {
					t.Fatalf("A: %v", ra.err)
				}
				if rb.err != nil {
					t.Fatalf("B: %v", rb.err)
				}
				want := append(append([]byte{}, ia...), msgA...)
				if !bytes.Equal(rb.got, want) {
					i := 0
					for i < len(want) && rb.got[i] == want[i] {
						i++
					}
					t.Fatalf("B read a stream that differs from what A wrote at offset %d (initial payload is %d bytes)", i, len(ia))
				}
				if !bytes.Equal(ra.got, msgB) {
					t.Fatal("A read a stream that differs from what B wrote")
				}
			})
		}
	}
}
