// rainvc:pkg internal/peerconn/peerwriter
// Replay adapter for internal/peerconn/peerwriter.(*PeerWriter).cancelRequest#counted: a cancel lowers the counter only when it removed a queued piece message
// (the demonstration of seeded change C08_e). FAILS when the real code violates the clause.
package peerwriter

import (
	"bytes"
	"testing"

	"github.com/cenkalti/rain/v2/internal/logger"
	"github.com/cenkalti/rain/v2/internal/peerprotocol"
)

func seedQueuedPieces(p *PeerWriter) int {
	n := 0
	for e := p.writeQueue.Front(); e != nil; e = e.Next() {
		if _, ok := e.Value.(Piece); ok {
			n++
		}
	}
	return n
}

// A peer may send "cancel" for blocks it has never requested (or that have been sent
// already). Such cancels must not buy it room in the upload queue: however the peer mixes
// cancel and request messages, no more than maxQueuedRequests piece messages are queued.
func TestRainvcReplay(t *testing.T) {
	const maxQueued = 4
	p := New(nil, logger.New("seed"), maxQueued, false, nil)
	data := bytes.NewReader(make([]byte, 1<<20))

	// These two methods are what the Run loop calls for each SendPiece / CancelRequest.
	for i := uint32(0); i < 1000; i++ {
		p.cancelRequest(peerprotocol.CancelMessage{RequestMessage: peerprotocol.RequestMessage{Index: 7, Begin: i * 16384, Length: 16384}})
	}
	for i := uint32(0); i < 1000; i++ {
		p.queueMessage(Piece{Data: data, RequestMessage: peerprotocol.RequestMessage{Index: 0, Begin: (i % 64) * 16384, Length: 16384}})
	}
	if n := seedQueuedPieces(p); n > maxQueued {
		t.Fatalf("%d piece messages queued for one peer, limit is %d", n, maxQueued)
	}
	if p.currentQueuedRequests != seedQueuedPieces(p) {
		t.Fatalf("queue accounting is off: counter=%d, queued pieces=%d", p.currentQueuedRequests, seedQueuedPieces(p))
	}

	// A cancel that does match gives back exactly one slot.
	p.cancelRequest(peerprotocol.CancelMessage{RequestMessage: peerprotocol.RequestMessage{Index: 0, Begin: 0, Length: 16384}})
	if n := seedQueuedPieces(p); n != maxQueued-1 {
		t.Fatalf("want %d queued pieces after a matching cancel, got %d", maxQueued-1, n)
	}
	for i := uint32(0); i < 10; i++ {
		p.queueMessage(Piece{Data: data, RequestMessage: peerprotocol.RequestMessage{Index: 1, Begin: i * 16384, Length: 16384}})
	}
	if n := seedQueuedPieces(p); n != maxQueued {
		t.Fatalf("want %d queued pieces, got %d", maxQueued, n)
	}
}
