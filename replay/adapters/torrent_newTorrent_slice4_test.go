// rainvc:pkg torrent
package torrent

// Replay adapter for newTorrent#sources / #slice: a torrent never keeps more web-seed
// sources than Config.WebseedMaxSources, for any configured maximum and any number of
// sources in the metainfo, and applying the cap does not panic.
// FAILS when the real code violates the clause.

import (
	"bytes"
	"fmt"
	"os"
	"testing"

	"github.com/zeebo/bencode"
)

func TestRainvcReplay(t *testing.T) {
	raw, err := os.ReadFile(torrentFile)
	if err != nil {
		t.Fatal(err)
	}
	var mi map[string]any
	if err := bencode.DecodeBytes(raw, &mi); err != nil {
		t.Fatal(err)
	}
	for _, c := range []struct{ max, n int }{{2, 3}, {5, 7}, {5, 11}, {10, 12}, {12, 15}, {0, 1}} {
		var urls []any
		for i := 0; i < c.n; i++ {
			urls = append(urls, fmt.Sprintf("http://127.0.0.1:1/seed%d/", i))
		}
		mi["url-list"] = urls
		b, err := bencode.EncodeBytes(mi)
		if err != nil {
			t.Fatal(err)
		}
		func() {
			tmp := t.TempDir()
			cfg := DefaultConfig
			cfg.Database = tmp + "/session.db"
			cfg.DataDir = tmp
			cfg.DHTEnabled = false
			cfg.PEXEnabled = false
			cfg.RPCEnabled = false
			cfg.Host = "127.0.0.1"
			cfg.WebseedMaxSources = c.max
			s, err := NewSession(cfg)
			if err != nil {
				t.Fatal(err)
			}
			defer s.Close()
			defer func() {
				if r := recover(); r != nil {
					t.Fatalf("violation reproduced: WebseedMaxSources=%d, %d sources in the metainfo: adding the torrent panics: %v", c.max, c.n, r)
				}
			}()
			tor, err := s.AddTorrent(bytes.NewReader(b), &AddTorrentOptions{Stopped: true})
			if err != nil {
				t.Fatalf("AddTorrent: %v", err)
			}
			if got := len(tor.torrent.webseedSources); got > c.max {
				t.Fatalf("violation reproduced: WebseedMaxSources=%d, %d sources in the metainfo: the torrent keeps %d sources", c.max, c.n, got)
			}
		}()
	}
}
