// rainvc:pkg internal/tracker
// Replay adapter for (*Tier).Announce#owncancel: an announce that the caller itself cancels (the
// announcer does so when the download completes while an announce is in flight) does not move
// the tier away from a tracker that answers.
// FAILS when the real code violates the clause.
package tracker

import (
	"context"
	"sync/atomic"
	"testing"
	"time"
)

type zzBlockingTracker struct {
	url  string
	hits atomic.Int32
}

func (f *zzBlockingTracker) Announce(ctx context.Context, _ AnnounceRequest) (*AnnounceResponse, error) {
	f.hits.Add(1)
	select {
	case <-ctx.Done():
		return nil, ctx.Err()
	case <-time.After(50 * time.Millisecond):
		return &AnnounceResponse{Interval: time.Hour}, nil
	}
}
func (f *zzBlockingTracker) URL() string { return f.url }
func TestRainvcReplay(t *testing.T) {
	a, b := &zzBlockingTracker{url: "a"}, &zzBlockingTracker{url: "b"}
	tier := &Tier{Trackers: []Tracker{a, b}}
	if _, err := tier.Announce(context.Background(), AnnounceRequest{}); err != nil {
		t.Fatal(err)
	}
	ctx, cancel := context.WithCancel(context.Background())
	done := make(chan struct{})
	go func() { _, _ = tier.Announce(ctx, AnnounceRequest{}); close(done) }()
	time.Sleep(10 * time.Millisecond)
	cancel()
	<-done
	if _, err := tier.Announce(context.Background(), AnnounceRequest{Event: EventCompleted}); err != nil {
		t.Fatal(err)
	}
	if b.hits.Load() != 0 {
		t.Errorf("violation reproduced: tier left tracker a which never failed: a=%d b=%d now %q", a.hits.Load(), b.hits.Load(), tier.URL())
	}
}
