// rainvc:pkg internal/piececache
// Replay adapter for internal/piececache.(*Cache).makeRoom#room: after makeRoom the new value fits into the cache
// (the demonstration of seeded change C17_c). FAILS when the real code violates the clause.
package piececache

import (
	"fmt"
	"testing"
	"time"
)

// TestSeedCacheSizeBoundMultiEvict checks that the read cache never holds more
// bytes than its configured maximum, in particular when a single insertion
// needs to evict more than one of the older (smaller) items.
func TestRainvcReplay(t *testing.T) {
	const maxSize = 10
	c := New(maxSize, time.Minute, 1)
	defer c.Close()

	loader := func(n int) Loader {
		return func() ([]byte, error) { return make([]byte, n), nil }
	}
	check := func(step string) {
		t.Helper()
		if s := c.Size(); s < 0 || s > maxSize {
			t.Fatalf("%s: cache size %d is outside [0, %d]", step, s, maxSize)
		}
		var sum int64
		c.m.RLock()
		for _, it := range c.accessList {
			sum += int64(len(it.value))
		}
		n := len(c.accessList)
		c.m.RUnlock()
		if sum != c.Size() {
			t.Fatalf("%s: accounted size %d differs from the bytes held %d", step, c.Size(), sum)
		}
		if n != c.Len() {
			t.Fatalf("%s: %d items in access list, %d in map", step, n, c.Len())
		}
	}

	// Three small items: 9 of 10 bytes used.
	for k := range 3 {
		if _, err := c.Get(fmt.Sprintf("small-%d", k), loader(3)); err != nil {
			t.Fatal(err)
		}
		check(fmt.Sprintf("small item %d", k))
	}
	// Evicting a single 3-byte item is enough here (free space 1 + 3 >= 4).
	if _, err := c.Get("four", loader(4)); err != nil {
		t.Fatal(err)
	}
	check("single eviction")

	// 10 bytes used (3+3+4). An 8-byte value fits only after evicting all three.
	if _, err := c.Get("eight", loader(8)); err != nil {
		t.Fatal(err)
	}
	check("multi eviction")

	// A value of exactly the maximum size must displace everything else.
	if _, err := c.Get("full", loader(maxSize)); err != nil {
		t.Fatal(err)
	}
	check("full-size value")
	if c.Len() != 1 {
		t.Fatalf("expected a single item after inserting a full-size value, got %d", c.Len())
	}

	// Many one-byte items, then a large one.
	c.Clear()
	for k := range 10 {
		if _, err := c.Get(fmt.Sprintf("one-%d", k), loader(1)); err != nil {
			t.Fatal(err)
		}
	}
	check("ten one-byte items")
	if _, err := c.Get("seven", loader(7)); err != nil {
		t.Fatal(err)
	}
	check("large after many small")
}
