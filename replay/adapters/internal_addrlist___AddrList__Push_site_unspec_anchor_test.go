// rainvc:pkg internal/addrlist
package addrlist

// Replay adapter for (*AddrList).Push#site.unspec.anchor: the unspecified address is never
// queued for dialing (dialing 0.0.0.0:<own port> reaches the client's own listening socket).
// FAILS when the real code violates the clause.

import (
	"net"
	"testing"

	"github.com/cenkalti/rain/v2/internal/peersource"
)

func TestRainvcReplay(t *testing.T) {
	cip := net.IPv4(98, 76, 54, 32)
	al := New(100, nil, 5000, &cip)
	al.Push([]*net.TCPAddr{{IP: net.IPv4zero, Port: 5000}}, peersource.Tracker)
	if al.Len() != 0 {
		a, _ := al.Pop()
		t.Fatalf("violation reproduced: %v (the unspecified address with the client's own listening port) is queued for dialing: it reaches the client itself", a)
	}
}
