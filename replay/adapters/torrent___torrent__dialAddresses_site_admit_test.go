// rainvc:pkg torrent
package torrent

// Replay adapter for (*torrent).dialAddresses#site.admit: an IP banned for
// sending corrupt data is never dialed, also when its address was queued
// before the ban. FAILS when the real code creates a handshaker for it.

import (
	"net"
	"testing"

	"github.com/cenkalti/rain/v2/internal/addrlist"
	"github.com/cenkalti/rain/v2/internal/handshaker/outgoinghandshaker"
	"github.com/cenkalti/rain/v2/internal/logger"
	"github.com/cenkalti/rain/v2/internal/peer"
	"github.com/cenkalti/rain/v2/internal/peersource"
)

func TestRainvcReplay(t *testing.T) {
	var noIP net.IP
	s := &Session{config: DefaultConfig}
	tor := &torrent{
		session:                   s,
		log:                       logger.New("rainvc"),
		addrList:                  addrlist.New(100, nil, 0, &noIP),
		connectedPeerIPs:          map[string]struct{}{},
		bannedPeerIPs:             map[string]struct{}{},
		outgoingHandshakers:       map[*outgoinghandshaker.OutgoingHandshaker]struct{}{},
		outgoingPeers:             map[*peer.Peer]struct{}{},
		outgoingHandshakerResultC: make(chan *outgoinghandshaker.OutgoingHandshaker, 8),
	}
	// the address is queued first, the IP is banned afterwards (as handlePieceWriteDone does)
	tor.addrList.Push([]*net.TCPAddr{{IP: net.IPv4(10, 9, 8, 7), Port: 51413}}, peersource.Tracker)
	if tor.addrList.Len() != 1 {
		t.Fatalf("address not queued: %d", tor.addrList.Len())
	}
	tor.bannedPeerIPs["10.9.8.7"] = struct{}{}
	tor.dialAddresses()
	if n := len(tor.outgoingHandshakers); n != 0 {
		for h := range tor.outgoingHandshakers {
			h.Close()
		}
		t.Fatalf("violation reproduced: %d outgoing handshake(s) started to banned IP 10.9.8.7", n)
	}
}
