// rainvc:pkg internal/tracker/httptracker
package httptracker

// Replay adapter for parsePeersDictionary#hasip: every peer address taken from a
// dictionary-model tracker reply has an IP; an entry whose "ip" is a host name or garbage does
// not become an address without an IP. FAILS when the real code violates the clause.

import "testing"

func TestRainvcReplay(t *testing.T) {
	for _, body := range []string{
		"ld2:ip3:foo4:porti22eee",
		"ld2:ip19:tracker.example.com4:porti6881eed2:ip7:1.2.3.44:porti1eee",
		"ld2:ip0:4:porti80eee",
	} {
		addrs, err := parsePeersDictionary([]byte(body))
		if err != nil {
			continue
		}
		for _, a := range addrs {
			if a == nil || len(a.IP) == 0 {
				t.Fatalf("violation reproduced: tracker reply %q yields the peer address %q with no IP (it would be dialed as the local host and never checked against the blocklist)", body, a.String())
			}
		}
	}
}
