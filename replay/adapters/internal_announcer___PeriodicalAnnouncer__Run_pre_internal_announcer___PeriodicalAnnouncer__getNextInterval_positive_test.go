// rainvc:pkg internal/announcer
package announcer

// Replay adapter for (*PeriodicalAnnouncer).Run#pre.getNextInterval.positive: whatever
// interval a tracker's reply contains (zero and negative included), the next periodic
// announce is not closer than the client's minimum announce interval (or the tracker's
// positive interval if that is smaller); and a need-more-peers signal while the tracker
// is failing does not cut the retry delay short.
// FAILS when the real code violates the clause.

import (
	"context"
	"errors"
	"net"
	"sync/atomic"
	"testing"
	"time"

	"github.com/cenkalti/rain/v2/internal/logger"
	"github.com/cenkalti/rain/v2/internal/tracker"
)

type rainvcTracker struct {
	interval time.Duration
	fail     bool
	calls    atomic.Int32
}

func (r *rainvcTracker) Announce(ctx context.Context, req tracker.AnnounceRequest) (*tracker.AnnounceResponse, error) {
	r.calls.Add(1)
	if r.fail {
		return nil, errors.New("tracker is down")
	}
	return &tracker.AnnounceResponse{Interval: r.interval}, nil
}
func (r *rainvcTracker) URL() string { return "http://tracker.invalid/announce" }

func TestRainvcReplay(t *testing.T) {
	const clientMin = time.Minute
	run := func(trk *rainvcTracker, needMore bool) int32 {
		newPeers := make(chan []*net.TCPAddr)
		a := NewPeriodicalAnnouncer(trk, 50, clientMin, func() tracker.Torrent { return tracker.Torrent{} }, make(chan struct{}), newPeers, logger.New("rainvc"))
		go a.Run()
		deadline := time.After(400 * time.Millisecond)
		tick := time.NewTicker(20 * time.Millisecond)
		defer tick.Stop()
	loop:
		for {
			select {
			case <-newPeers:
			case <-tick.C:
				if needMore {
					a.NeedMorePeers(false)
				}
			case <-deadline:
				break loop
			}
		}
		a.Close()
		return trk.calls.Load()
	}
	for _, iv := range []time.Duration{0, -5 * time.Second} {
		if n := run(&rainvcTracker{interval: iv}, false); n > 2 {
			t.Fatalf("violation reproduced: tracker replied with interval %v: %d announces in 400ms with a client minimum interval of %v", iv, n, clientMin)
		}
	}
	// initial retry delay after an error is at least 2.5s: one announce expected in 400ms
	if n := run(&rainvcTracker{fail: true}, true); n > 2 {
		t.Fatalf("violation reproduced: failing tracker and need-more-peers signals: %d announces in 400ms, the retry delay was cut short", n)
	}
}
