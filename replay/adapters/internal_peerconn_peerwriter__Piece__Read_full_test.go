// rainvc:pkg internal/peerconn/peerwriter
package peerwriter

// Replay adapter for (Piece).Read#full: a piece message is reported complete (io.EOF, which the
// writer's buffer takes as the normal end) only with all the requested bytes. The data source
// returns (0, io.EOF), as a file that was truncated behind the client's back does.
// FAILS when the real code violates the clause.

import (
	"io"
	"testing"

	"github.com/cenkalti/rain/v2/internal/peerprotocol"
)

type rainvcShortReader struct{}

func (rainvcShortReader) ReadAt(p []byte, off int64) (int, error) { return 0, io.EOF }

func TestRainvcReplay(t *testing.T) {
	p := Piece{Data: rainvcShortReader{}, RequestMessage: peerprotocol.RequestMessage{Index: 3, Begin: 0, Length: 16384}}
	b := make([]byte, 8+16384)
	n, err := p.Read(b)
	if err == io.EOF && n != 8+16384 {
		t.Fatalf("violation reproduced: the block read returned no data, and Read reports a complete piece message (io.EOF) of %d data bytes instead of 16384: a piece message without the requested data is sent", n-8)
	}
}
