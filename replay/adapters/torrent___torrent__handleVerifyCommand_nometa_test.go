// rainvc:pkg torrent
package torrent

// Replay adapter for (*torrent).handleVerifyCommand#nometa: a verification request for a
// torrent whose metadata is not known leaves no re-check pending. History: magnet link added
// stopped, Verify(), Stop().
// FAILS when the real code violates the clause.

import (
	"testing"
	"time"
)

func TestRainvcReplay(t *testing.T) {
	s := newTestSession(t)
	s.config.TrackerStopTimeout = 50 * time.Millisecond
	defer time.Sleep(300 * time.Millisecond)
	tor, err := s.AddURI(torrentMagnetLink, &AddTorrentOptions{Stopped: true})
	if err != nil {
		t.Fatal(err)
	}
	if err := tor.Verify(); err != nil {
		t.Fatal(err)
	}
	time.Sleep(200 * time.Millisecond)
	_ = tor.Stop()
	time.Sleep(500 * time.Millisecond)
	notStopped := 0
	for i := 0; i < 50; i++ {
		if tor.Stats().Status != Stopped {
			notStopped++
		}
		time.Sleep(5 * time.Millisecond)
	}
	pending := tor.torrent.doVerify
	if pending || notStopped > 0 {
		tor.torrent.doVerify = false // let the test end
		_ = tor.Stop()
		time.Sleep(300 * time.Millisecond)
		t.Fatalf("violation reproduced: Verify() on a magnet torrent without metadata left a re-check pending (%v): after Stop() the torrent was not Stopped in %d of 50 samples (it restarts itself after every stop)", pending, notStopped)
	}
}
