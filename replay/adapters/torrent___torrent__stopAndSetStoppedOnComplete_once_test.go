// rainvc:pkg torrent
package torrent

// Replay adapter for (*torrent).stopAndSetStoppedOnComplete#once: "stop after download"
// applies once. History: a torrent whose data is complete is added with StopAfterDownload and
// stops when the check finds it complete; the user then starts it to seed.
// FAILS when the real code violates the clause.

import (
	"os"
	"path/filepath"
	"testing"
	"time"

	cp "github.com/otiai10/copy"
)

func TestRainvcReplay(t *testing.T) {
	s := newTestSession(t)
	s.config.TrackerStopTimeout = 50 * time.Millisecond
	defer time.Sleep(300 * time.Millisecond)
	f, err := os.Open(torrentFile)
	if err != nil {
		t.Fatal(err)
	}
	defer f.Close()
	tor, err := s.AddTorrent(f, &AddTorrentOptions{Stopped: true, StopAfterDownload: true})
	if err != nil {
		t.Fatal(err)
	}
	dst := filepath.Join(s.config.DataDir, tor.ID(), torrentName)
	if err := os.MkdirAll(filepath.Dir(dst), 0o750); err != nil {
		t.Fatal(err)
	}
	if err := cp.Copy(filepath.Join(torrentDataDir, torrentName), dst); err != nil {
		t.Fatal(err)
	}
	tor.torrent.trackers = nil
	waitStopped := func(what string) {
		time.Sleep(200 * time.Millisecond)
		deadline := time.Now().Add(10 * time.Second)
		for tor.Stats().Status != Stopped {
			if time.Now().After(deadline) {
				t.Fatalf("%s: torrent is %v", what, tor.Stats().Status)
			}
			time.Sleep(10 * time.Millisecond)
		}
	}
	if err := tor.Start(); err != nil {
		t.Fatal(err)
	}
	waitStopped("stop after download")
	if st := tor.Stats(); st.Pieces.Have != st.Pieces.Total {
		t.Skipf("fixture is not complete: %d/%d", st.Pieces.Have, st.Pieces.Total)
	}
	// The option has done its work. Now the user wants to seed.
	if err := tor.Start(); err != nil {
		t.Fatal(err)
	}
	time.Sleep(time.Second)
	st := tor.Stats().Status
	_ = tor.Stop()
	waitStopped("final stop")
	if st != Seeding {
		t.Fatalf("violation reproduced: the torrent was started again after \"stop after download\" had stopped it, and one second later it is %v instead of Seeding: the start is undone every time", st)
	}
}
