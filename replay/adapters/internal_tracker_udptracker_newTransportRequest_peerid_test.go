// rainvc:pkg internal/tracker/udptracker
package udptracker

// Replay adapter for newTransportRequest#peerid: the UDP announce must carry
// the torrent's 20-byte peer id unchanged. FAILS when the real code violates it.

import (
	"context"
	"testing"

	"github.com/cenkalti/rain/v2/internal/tracker"
)

func TestRainvcReplay(t *testing.T) {
	var id, ih [20]byte
	for i := range id {
		id[i] = byte(0xA0 + i)
		ih[i] = byte(i + 1)
	}
	req := tracker.AnnounceRequest{Torrent: tracker.Torrent{InfoHash: ih, PeerID: id, Port: 6881, BytesLeft: 7}, NumWant: 50}
	r := newTransportRequest(context.Background(), req, "127.0.0.1:1", "")
	if r.PeerID != id {
		t.Fatalf("violation reproduced: announce carries peer id %x, the torrent's is %x (key %d)", r.PeerID, id, r.Key)
	}
	if r.InfoHash != ih {
		t.Fatalf("violation reproduced: announce carries info hash %x, want %x", r.InfoHash, ih)
	}
}
