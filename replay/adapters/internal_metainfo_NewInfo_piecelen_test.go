// rainvc:pkg internal/metainfo
package metainfo

// Replay adapter for metainfo.NewInfo#piecelen: an accepted info dictionary has a piece length
// of at most 256 MiB (a buffer of the piece length is allocated per piece being downloaded or
// verified). Input: a 100-byte info dictionary announcing 1 GiB pieces.
// FAILS when the real code violates the clause.

import (
	"fmt"
	"testing"
)

func TestRainvcReplay(t *testing.T) {
	const pl = 1 << 30
	b := []byte(fmt.Sprintf("d6:lengthi%de4:name1:a12:piece lengthi%de6:pieces20:%se", pl, pl, "01234567890123456789"))
	info, err := NewInfo(b, true, true)
	if err == nil {
		t.Fatalf("violation reproduced: a %d-byte info dictionary with piece length %d MiB is accepted: starting it allocates a buffer of that size for every piece in flight", len(b), info.PieceLength>>20)
	}
}
