// rainvc:pkg internal/tracker/udptracker
// Replay adapter for internal/tracker/udptracker.(*Transport).readLoop#site.owncopy: a datagram handed to the run loop does not share memory with the read buffer
// (the demonstration of seeded change C16_d). FAILS when the real code violates the clause.
package udptracker

import (
	"bytes"
	"context"
	"encoding/binary"
	"net"
	"net/url"
	"testing"
	"time"

	"github.com/cenkalti/rain/v2/internal/tracker"
)

// seedServeUDP is a minimal BEP 15 tracker. The peer list of an announce reply depends on the
// info hash of the request: torrent N gets N peers with the address 10.0.0.N:N.
func seedServeUDP(conn *net.UDPConn) {
	buf := make([]byte, 2048)
	for {
		n, addr, err := conn.ReadFromUDP(buf)
		if err != nil {
			return
		}
		if n < 16 {
			continue
		}
		action := binary.BigEndian.Uint32(buf[8:12])
		trxID := buf[12:16]
		var reply bytes.Buffer
		switch action {
		case 0: // connect
			reply.Write([]byte{0, 0, 0, 0})
			reply.Write(trxID)
			reply.Write([]byte{1, 2, 3, 4, 5, 6, 7, 8})
		case 1: // announce
			if n < 98 {
				continue
			}
			torrent := buf[16] // first byte of the info hash
			reply.Write([]byte{0, 0, 0, 1})
			reply.Write(trxID)
			reply.Write([]byte{0, 0, 7, 8})       // interval
			reply.Write([]byte{0, 0, 0, torrent}) // leechers
			reply.Write([]byte{0, 0, 0, torrent}) // seeders
			for i := byte(0); i < torrent; i++ {
				reply.Write([]byte{10, 0, 0, torrent, 0, torrent})
			}
		default:
			continue
		}
		_, _ = conn.WriteToUDP(reply.Bytes(), addr)
	}
}

// Two torrents share one UDP tracker (one Transport). The reply that has been handed out for
// the announce of the first torrent must stay the reply to that transaction, whatever datagrams
// arrive afterwards.
func TestRainvcReplay(t *testing.T) {
	srv, err := net.ListenUDP("udp4", &net.UDPAddr{IP: net.IPv4(127, 0, 0, 1)})
	if err != nil {
		t.Fatal(err)
	}
	defer srv.Close()
	go seedServeUDP(srv)

	rawURL := "udp://" + srv.LocalAddr().String()
	u, err := url.Parse(rawURL)
	if err != nil {
		t.Fatal(err)
	}
	tr := NewTransport(nil, 5*time.Second)
	go tr.Run()
	defer tr.Close()
	trk := New(rawURL, u, tr)

	ctx, cancel := context.WithTimeout(context.Background(), 20*time.Second)
	defer cancel()

	announce := func(torrent byte) (*transportRequest, []byte) {
		req := newTransportRequest(ctx, tracker.AnnounceRequest{
			Torrent: tracker.Torrent{InfoHash: [20]byte{torrent}, PeerID: [20]byte{torrent}, Port: 6881, BytesLeft: 1},
			NumWant: 50,
		}, trk.dest, "")
		reply, err := tr.Do(req)
		if err != nil {
			t.Fatalf("announce of torrent %d: %v", torrent, err)
		}
		return req, reply
	}

	// Torrent 3 announces and gets its reply ...
	req3, reply3 := announce(3)
	received := append([]byte(nil), reply3...)

	// ... then torrent 1 and torrent 2 announce over the same transport.
	announce(1)
	announce(2)

	// The reply of torrent 3 is looked at only now (its goroutine was slow).
	if !bytes.Equal(reply3, received) {
		t.Errorf("the reply for torrent 3 has changed after it was delivered:\n was %x\n now %x", received, reply3)
	}
	var header udpMessageHeader
	if err := binary.Read(bytes.NewReader(reply3), binary.BigEndian, &header); err != nil {
		t.Fatal(err)
	}
	if header.TransactionID != req3.TransactionID {
		t.Errorf("reply for transaction %d carries transaction id %d", req3.TransactionID, header.TransactionID)
	}
	resp, peers, err := trk.parseAnnounceResponse(reply3)
	if err != nil {
		t.Fatalf("reply of torrent 3 does not parse: %v", err)
	}
	if resp.Seeders != 3 || len(peers) != 3 {
		t.Fatalf("torrent 3: got %d seeders and %d peers, want 3 and 3", resp.Seeders, len(peers))
	}
	for _, p := range peers {
		if !p.IP.Equal(net.IPv4(10, 0, 0, 3)) || p.Port != 3 {
			t.Errorf("torrent 3 was given the peer %v of another torrent", p)
		}
	}
}
