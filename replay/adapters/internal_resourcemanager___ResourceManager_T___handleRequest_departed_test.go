// rainvc:pkg internal/resourcemanager
// Replay adapter for internal/resourcemanager.(*ResourceManager[T]).handleRequest#departed: a request whose cancel channel won reserves nothing
// (the demonstration of seeded change C17_e). FAILS when the real code violates the clause.
package resourcemanager

import (
	"testing"
)

// A peer asks for memory for a piece and goes away (its cancel channel is closed)
// before the manager has replied. The manager gives up on that request, so nothing
// may stay reserved for it: nobody is left to release it.
//
// The request is handed to the manager the same way Request does it. The requester
// is not yet waiting for the reply when the manager handles the request, which is
// what happens when the requesting goroutine is descheduled between handing the
// request over and waiting for the answer.
func TestRainvcReplay(t *testing.T) {
	const limit = 10
	m := New[string](limit)
	defer m.Close()

	gone := make(chan struct{})
	close(gone)

	for i := 0; i < 3; i++ {
		r := request[string]{
			key:     "torrent",
			data:    "peer",
			n:       3,
			cancelC: gone,
			doneC:   make(chan bool),
		}
		m.requestC <- r
		// Stats is answered by the same loop, so the request has been dealt with.
		st := m.Stats()
		if st.AllocatedSize != 0 || st.AllocatedObjects != 0 {
			t.Fatalf("request of a departed peer left a reservation behind: size=%d objects=%d", st.AllocatedSize, st.AllocatedObjects)
		}
	}

	// All of the memory must still be there for others.
	if !m.Request("other", "peer2", limit, nil, nil) {
		t.Fatal("whole limit must be available after cancelled requests")
	}
	st := m.Stats()
	if st.AllocatedSize != limit || st.AllocatedObjects != 1 {
		t.Fatalf("unexpected stats: %+v", st)
	}
	m.Release(limit)
	st = m.Stats()
	if st.AllocatedSize != 0 || st.AllocatedObjects != 0 {
		t.Fatalf("reservations do not balance: %+v", st)
	}
}
