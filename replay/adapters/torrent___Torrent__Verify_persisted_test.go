// rainvc:pkg torrent
package torrent

// Replay adapter for (*Torrent).Verify#persisted: Verify ends with the torrent stopped, and
// the resume database says so. History: Start(), Verify(), read the started flag a session
// restart would use.
// FAILS when the real code violates the clause.

import (
	"os"
	"testing"
	"time"
)

func TestRainvcReplay(t *testing.T) {
	s := newTestSession(t)
	s.config.TrackerStopTimeout = 50 * time.Millisecond
	defer time.Sleep(300 * time.Millisecond)
	f, err := os.Open(torrentFile)
	if err != nil {
		t.Fatal(err)
	}
	defer f.Close()
	tor, err := s.AddTorrent(f, &AddTorrentOptions{Stopped: true})
	if err != nil {
		t.Fatal(err)
	}
	tor.torrent.trackers = nil
	if err := tor.Start(); err != nil {
		t.Fatal(err)
	}
	time.Sleep(100 * time.Millisecond)
	if err := tor.Verify(); err != nil {
		t.Fatal(err)
	}
	deadline := time.Now().Add(10 * time.Second)
	time.Sleep(200 * time.Millisecond)
	for tor.Stats().Status != Stopped {
		if time.Now().After(deadline) {
			t.Fatalf("torrent is %v", tor.Stats().Status)
		}
		time.Sleep(10 * time.Millisecond)
	}
	spec, err := s.resumer.Read(tor.ID())
	if err != nil {
		t.Fatal(err)
	}
	if spec.Started {
		t.Fatalf("violation reproduced: after Verify() the torrent is %v, but the resume database records started=true: a session restart starts it", tor.Stats().Status)
	}
}
