// rainvc:pkg torrent
package torrent

// Replay adapter for (*torrent).handleNewPeers#site.privatesrc: a private
// torrent must not take peer addresses from DHT (results are fanned out per
// info-hash by the session) or PEX. FAILS when the real code queues them.

import (
	"bytes"
	"crypto/sha1"
	"net"
	"testing"
	"time"
)

func TestRainvcReplay(t *testing.T) {
	s := newTestSession(t)
	s.config.TrackerStopTimeout = 50 * time.Millisecond
	pieces := sha1.Sum(make([]byte, 16384))
	var b bytes.Buffer
	b.WriteString("d4:infod6:lengthi16384e4:name8:rainvc1912:piece lengthi16384e6:pieces20:")
	b.Write(pieces[:])
	b.WriteString("7:privatei1eee")
	tor, err := s.AddTorrent(bytes.NewReader(b.Bytes()), nil)
	if err != nil {
		t.Fatal(err)
	}
	deadline := time.Now().Add(5 * time.Second)
	for tor.Stats().Status != Downloading && time.Now().Before(deadline) {
		time.Sleep(20 * time.Millisecond)
	}
	if !tor.Stats().Private {
		t.Fatal("torrent not private")
	}
	// A listener stands in for a peer found through the DHT: if the client dials it,
	// it used a DHT-provided address for a private torrent.
	ln, err := net.Listen("tcp", "127.0.0.1:0")
	if err != nil {
		t.Fatal(err)
	}
	defer ln.Close()
	addrs := []*net.TCPAddr{ln.Addr().(*net.TCPAddr)}
	select {
	case tor.torrent.dhtPeersC <- addrs:
	case <-time.After(time.Second):
		t.Fatal("cannot deliver DHT result")
	}
	_ = ln.(*net.TCPListener).SetDeadline(time.Now().Add(1500 * time.Millisecond))
	conn, err := ln.Accept()
	if err == nil {
		conn.Close()
		t.Fatalf("violation reproduced: private torrent dialed %s, an address it can only have learned from the DHT result", ln.Addr())
	}
}
