// rainvc:pkg internal/cachedpiece
// Replay adapter for internal/cachedpiece.(*CachedPiece).readFromBlock#site.keyed: two different blocks never share a cache key
// (the demonstration of seeded change C03_c). FAILS when the real code violates the clause.
package cachedpiece

import (
	"bytes"
	"io"
	"testing"
	"time"

	"github.com/cenkalti/rain/v2/internal/filesection"
	"github.com/cenkalti/rain/v2/internal/piece"
	"github.com/cenkalti/rain/v2/internal/piececache"
)

type seedFile struct{ b []byte }

func (m *seedFile) ReadAt(p []byte, off int64) (int, error) {
	if off >= int64(len(m.b)) {
		return 0, io.EOF
	}
	n := copy(p, m.b[off:])
	if n < len(p) {
		return n, io.EOF
	}
	return n, nil
}

func (m *seedFile) WriteAt(p []byte, off int64) (int, error) {
	return 0, io.ErrShortWrite
}

// seedTorrent builds the pieces of a single-file torrent whose last piece is
// shorter than the others, the way piece.NewPieces lays them out.
func seedTorrent(pieceLength, total int) ([]byte, []piece.Piece) {
	data := make([]byte, total)
	for i := range data {
		data[i] = byte(i*7 + 1)
	}
	mf := &seedFile{b: data}
	var pieces []piece.Piece
	for off := 0; off < total; off += pieceLength {
		l := min(pieceLength, total-off)
		pieces = append(pieces, piece.Piece{
			Index:  uint32(len(pieces)),
			Length: uint32(l),
			Data:   filesection.Piece{{File: mf, Offset: int64(off), Length: int64(l)}},
		})
	}
	return data, pieces
}

// A block of the (short) last piece is requested after a block of another piece
// has been put into the shared read cache by an earlier request.
func TestRainvcReplay(t *testing.T) {
	const pieceLength, total, readSize = 32, 3*32 + 8, 8
	data, pieces := seedTorrent(pieceLength, total)

	cache := piececache.New(1<<20, time.Minute, 1)
	t.Cleanup(cache.Close)
	peerID := [20]byte{1, 2, 3}

	// A peer asks for the end of piece #0.
	buf := make([]byte, 8)
	n, err := New(&pieces[0], cache, readSize, peerID).ReadAt(buf, 24)
	if err != nil || n != 8 {
		t.Fatalf("piece 0: n=%d err=%v", n, err)
	}
	if !bytes.Equal(buf, data[24:32]) {
		t.Fatalf("piece 0: got %v want %v", buf, data[24:32])
	}

	// Then a peer asks for the last piece.
	last := &pieces[len(pieces)-1]
	buf = make([]byte, 8)
	n, err = New(last, cache, readSize, peerID).ReadAt(buf, 0)
	if err != nil || n != 8 {
		t.Fatalf("last piece: n=%d err=%v", n, err)
	}
	want := data[3*pieceLength : 3*pieceLength+8]
	if !bytes.Equal(buf, want) {
		t.Fatalf("last piece served wrong bytes: got %v want %v", buf, want)
	}
}

// Every (piece, begin, length) is read through one shared cache, in two passes so that
// the second pass sees a warm cache, for several cache block sizes.
func zzUnusedTestSeedAllRequestsSharedCache(t *testing.T) {
	for _, tc := range []struct{ pieceLength, total int }{{32, 3*32 + 8}, {48, 4*48 + 12}, {64, 64 + 16}} {
		for _, readSize := range []int64{4, 8, 16, 32} {
			data, pieces := seedTorrent(tc.pieceLength, tc.total)
			cache := piececache.New(1<<20, time.Minute, 1)
			peerID := [20]byte{9}
			for pass := 0; pass < 2; pass++ {
				for i := range pieces {
					pi := &pieces[i]
					cp := New(pi, cache, readSize, peerID)
					base := i * tc.pieceLength
					for begin := 0; begin < int(pi.Length); begin++ {
						for length := 1; begin+length <= int(pi.Length) && length <= 20; length++ {
							buf := make([]byte, length)
							n, err := cp.ReadAt(buf, int64(begin))
							if err != nil || n != length {
								t.Fatalf("piece %d begin %d length %d readSize %d: n=%d err=%v", i, begin, length, readSize, n, err)
							}
							if !bytes.Equal(buf, data[base+begin:base+begin+length]) {
								t.Fatalf("piece %d begin %d length %d readSize %d pass %d: wrong bytes", i, begin, length, readSize, pass)
							}
						}
					}
				}
			}
			cache.Close()
		}
	}
}
