// rainvc:pkg internal/metainfo
package metainfo

// Replay adapter for metainfo.NewInfo#site.guardedinfo (and New#site.guardedfile): a torrent file or metadata from a peer reaches the bencode decoder
// only after the guard accepted it. Inputs: a "torrent" that declares a 2 GiB string in a few
// bytes, and one made of 300000 nested lists.
// FAILS when the real code violates the clause (a stack overflow kills the test binary).

import (
	"bytes"
	"runtime"
	"runtime/debug"
	"testing"
)

func TestRainvcReplay(t *testing.T) {
	var before, after runtime.MemStats
	runtime.ReadMemStats(&before)
	_, err := New(bytes.NewReader([]byte("d4:info2147483647:")))
	runtime.ReadMemStats(&after)
	if grown := after.TotalAlloc - before.TotalAlloc; grown > 1<<30 {
		t.Fatalf("violation reproduced: an 18-byte torrent file made the client allocate %d MiB (error afterwards: %v)", grown>>20, err)
	}
	debug.SetMaxStack(64 << 20)
	deep := append([]byte("d4:info"), bytes.Repeat([]byte("l"), 300000)...)
	if _, err := New(bytes.NewReader(deep)); err == nil {
		t.Fatal("violation reproduced: 300000 nested lists accepted")
	}
	if _, err := NewInfo(append([]byte("d1:a"), bytes.Repeat([]byte("l"), 300000)...), true, true); err == nil {
		t.Fatal("violation reproduced: 300000 nested lists accepted as metadata")
	}
}
