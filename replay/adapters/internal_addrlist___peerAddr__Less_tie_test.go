// rainvc:pkg internal/addrlist
package addrlist

// Replay adapter for (*peerAddr).Less#tie: entries of equal priority are ordered by address, so
// distinct addresses never displace each other in the candidate queue. Three distinct addresses
// whose BEP 40 priorities collide (the priority masks the low address bits and ignores the port
// unless the IPs are equal) are pushed.
// FAILS when the real code violates the clause.

import (
	"net"
	"testing"

	"github.com/cenkalti/rain/v2/internal/peersource"
)

func TestRainvcReplay(t *testing.T) {
	cip := net.IPv4(98, 76, 54, 32)
	al := New(100, nil, 5000, &cip)
	addrs := []*net.TCPAddr{{IP: net.IPv4(1, 2, 3, 4), Port: 6881}, {IP: net.IPv4(1, 2, 3, 6), Port: 6881}, {IP: net.IPv4(1, 2, 3, 4), Port: 51413}}
	al.Push(addrs, peersource.Tracker)
	if al.Len() != 3 {
		t.Fatalf("violation reproduced: 3 distinct addresses pushed, the queue holds %d: addresses with equal priority replace each other", al.Len())
	}
}
