// rainvc:pkg torrent
package torrent

// Replay adapter for (*torrent).handleIncomingHandshakeDone#failedclosed: an incoming
// connection whose handshake failed is closed, not kept open.
// FAILS when the real code violates the clause.

import (
	"errors"
	"net"
	"os"
	"testing"
	"time"

	"github.com/cenkalti/rain/v2/internal/handshaker/incominghandshaker"
)

type rainvcConn struct{ closed int }

func (c *rainvcConn) Read(b []byte) (int, error)         { return 0, errors.New("eof") }
func (c *rainvcConn) Write(b []byte) (int, error)        { return len(b), nil }
func (c *rainvcConn) Close() error                       { c.closed++; return nil }
func (c *rainvcConn) LocalAddr() net.Addr                { return &net.TCPAddr{IP: net.IPv4(127, 0, 0, 1), Port: 1} }
func (c *rainvcConn) RemoteAddr() net.Addr               { return &net.TCPAddr{IP: net.IPv4(9, 9, 9, 9), Port: 2} }
func (c *rainvcConn) SetDeadline(t time.Time) error      { return nil }
func (c *rainvcConn) SetReadDeadline(t time.Time) error  { return nil }
func (c *rainvcConn) SetWriteDeadline(t time.Time) error { return nil }

func TestRainvcReplay(t *testing.T) {
	s := newTestSession(t)
	f, err := os.Open(torrentFile)
	if err != nil {
		t.Fatal(err)
	}
	defer f.Close()
	tor, err := s.AddTorrent(f, &AddTorrentOptions{Stopped: true})
	if err != nil {
		t.Fatal(err)
	}
	conn := &rainvcConn{}
	ih := incominghandshaker.New(conn)
	ih.Error = errors.New("invalid protocol header")
	tt := tor.torrent
	tt.incomingHandshakers[ih] = struct{}{}
	tt.connectedPeerIPs["9.9.9.9"] = struct{}{}
	tt.handleIncomingHandshakeDone(ih)
	if conn.closed == 0 {
		t.Fatalf("violation reproduced: the incoming handshake failed (%v) and its connection was not closed: the socket stays open", ih.Error)
	}
}
