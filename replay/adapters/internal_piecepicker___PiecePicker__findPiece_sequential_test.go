// rainvc:pkg internal/piecepicker
package piecepicker

// Replay adapter for (*PiecePicker).findPiece#sequential: in sequential mode, once
// the pieces at both ends of every file are taken, a request to an unchoking peer
// goes to the lowest-indexed eligible piece. FAILS when the real code violates
// the clause.

import (
	"testing"

	"github.com/cenkalti/rain/v2/internal/bitfield"
	"github.com/cenkalti/rain/v2/internal/filesection"
	"github.com/cenkalti/rain/v2/internal/peer"
	"github.com/cenkalti/rain/v2/internal/piece"
)

func TestRainvcReplay(t *testing.T) {
	const n = 200
	const plen = 16384
	pieces := make([]piece.Piece, n)
	for i := range pieces {
		pieces[i] = piece.Piece{Index: uint32(i), Length: plen, Data: filesection.Piece{{Name: "file", Offset: int64(i) * plen, Length: plen}}}
	}
	pe := &peer.Peer{ID: [20]byte{1}, Bitfield: bitfield.New(n)}
	pp := New(pieces, 2, nil, true)
	for i := range pieces {
		pp.HandleHave(pe, uint32(i))
	}
	// take the pieces at both ends of the file
	for i := range pp.pieces {
		if pp.pieces[i].FileHead || pp.pieces[i].FileTail {
			pieces[i].Done = true
		}
	}
	// the peer allows piece 50 while choking, then unchokes us
	pp.HandleAllowedFast(pe, 50)
	pe.PeerChoking = false
	lowest := -1
	for i := range pp.pieces {
		if !pieces[i].Done && !pieces[i].Writing && pp.pieces[i].Requested.Len() == 0 && pp.pieces[i].Having.Has(pe) {
			lowest = i
			break
		}
	}
	got, _ := pp.PickFor(pe)
	if got == nil || int(got.Index) != lowest {
		t.Fatalf("violation reproduced: sequential mode, unchoking peer with allowed-fast piece 50: picked piece %v, lowest eligible piece is %d", got.Index, lowest)
	}
}
