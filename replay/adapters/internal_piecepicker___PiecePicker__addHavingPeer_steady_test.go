// rainvc:pkg internal/piecepicker
package piecepicker

// Replay adapter for (*PiecePicker).addHavingPeer#count / #steady: the available
// counter equals the number of pieces held by at least one peer after every
// have / disconnect event, including repeated announcements.
// FAILS when the real code violates the clause.

import (
	"testing"

	"github.com/cenkalti/rain/v2/internal/bitfield"
	"github.com/cenkalti/rain/v2/internal/filesection"
	"github.com/cenkalti/rain/v2/internal/peer"
	"github.com/cenkalti/rain/v2/internal/piece"
)

func TestRainvcReplay(t *testing.T) {
	const n = 6
	pieces := make([]piece.Piece, n)
	for i := range pieces {
		pieces[i] = piece.Piece{Index: uint32(i), Length: 16384, Data: filesection.Piece{{Name: "f", Offset: int64(i) * 16384, Length: 16384}}}
	}
	pp := New(pieces, 2, nil, false)
	peers := []*peer.Peer{{ID: [20]byte{1}, Bitfield: bitfield.New(n)}, {ID: [20]byte{2}, Bitfield: bitfield.New(n)}}
	held := func() uint32 {
		var c uint32
		for i := range pp.pieces {
			if pp.pieces[i].Having.Len() > 0 {
				c++
			}
		}
		return c
	}
	check := func(ev string) {
		if pp.Available() != held() {
			t.Fatalf("violation reproduced: after %s: Available() = %d, pieces held by at least one peer = %d", ev, pp.Available(), held())
		}
	}
	events := [][2]int{{0, 1}, {0, 1}, {1, 1}, {0, 2}, {0, 2}, {1, 2}, {1, 3}, {0, 3}, {1, 3}}
	for _, e := range events {
		pp.HandleHave(peers[e[0]], uint32(e[1]))
		check("have")
	}
	pp.HandleDisconnect(peers[0])
	check("disconnect")
	pp.HandleHave(peers[1], 3)
	check("repeated have")
	pp.HandleDisconnect(peers[1])
	check("disconnect")
}
