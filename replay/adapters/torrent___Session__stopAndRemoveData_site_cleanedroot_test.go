// rainvc:pkg torrent
package torrent

// Replay adapter for (*Session).stopAndRemoveData#site.cleanedroot: removing a torrent's data
// deletes the path under which its files were created, never a path built from the raw name in
// the metainfo. Session without the torrent-id directory level; torrents named "../victim" and
// "x/.."; added stopped and removed.
// FAILS when the real code violates the clause.

import (
	"bytes"
	"fmt"
	"os"
	"path/filepath"
	"testing"
)

func TestRainvcReplay(t *testing.T) {
	tmp := t.TempDir()
	cfg := DefaultConfig
	cfg.Database = filepath.Join(tmp, "session.db")
	cfg.DataDir = filepath.Join(tmp, "data")
	cfg.DataDirIncludesTorrentID = false
	cfg.DHTEnabled, cfg.PEXEnabled, cfg.RPCEnabled, cfg.Host = false, false, false, "127.0.0.1"
	s, err := NewSession(cfg)
	if err != nil {
		t.Fatal(err)
	}
	defer s.Close()
	victim := filepath.Join(tmp, "victim")
	_ = os.MkdirAll(victim, 0o755)
	_ = os.WriteFile(filepath.Join(victim, "precious.txt"), []byte("x"), 0o644)
	other := filepath.Join(cfg.DataDir, "other-torrent")
	_ = os.MkdirAll(other, 0o755)
	for _, name := range []string{"../victim", "x/.."} {
		info := fmt.Sprintf("d6:lengthi16384e4:name%d:%s12:piece lengthi16384e6:pieces20:%se", len(name), name, "01234567890123456789")
		tr, err := s.AddTorrent(bytes.NewReader([]byte("d4:info"+info+"e")), &AddTorrentOptions{Stopped: true})
		if err != nil {
			continue // rejecting the torrent is fine
		}
		_ = s.RemoveTorrent(tr.ID(), false)
		if _, err = os.Stat(filepath.Join(victim, "precious.txt")); err != nil {
			t.Errorf("violation reproduced: torrent named %q: removing it deleted a directory outside the data directory: %v", name, err)
		}
		if _, err = os.Stat(other); err != nil {
			t.Errorf("violation reproduced: torrent named %q: removing it deleted the whole data directory: %v", name, err)
		}
	}
}
