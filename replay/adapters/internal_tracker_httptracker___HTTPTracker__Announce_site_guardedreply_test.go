// rainvc:pkg internal/tracker/httptracker
package httptracker

// Replay adapter for (*HTTPTracker).Announce#site.guardedreply: a tracker reply reaches the bencode
// decoder only after the guard accepted it. Replies: one that declares a 2 GiB string in a few
// bytes, and one made of 300000 nested lists (well below the response size limit).
// FAILS when the real code violates the clause (a stack overflow kills the test binary).

import (
	"bytes"
	"context"
	"net/http"
	"net/http/httptest"
	"net/url"
	"runtime"
	"runtime/debug"
	"testing"
	"time"

	"github.com/cenkalti/rain/v2/internal/tracker"
)

func TestRainvcReplay(t *testing.T) {
	var body []byte
	srv := httptest.NewServer(http.HandlerFunc(func(w http.ResponseWriter, r *http.Request) { _, _ = w.Write(body) }))
	defer srv.Close()
	u, _ := url.Parse(srv.URL + "/announce")
	trk := New(srv.URL+"/announce", u, time.Second, http.DefaultTransport.(*http.Transport), "ua", 10<<20)
	announce := func() error {
		_, err := trk.Announce(context.Background(), tracker.AnnounceRequest{})
		return err
	}
	var before, after runtime.MemStats
	body = []byte("d8:intervali1800e5:peers2147483647:")
	runtime.ReadMemStats(&before)
	err := announce()
	runtime.ReadMemStats(&after)
	if grown := after.TotalAlloc - before.TotalAlloc; grown > 1<<30 {
		t.Fatalf("violation reproduced: a %d-byte tracker reply made the client allocate %d MiB (error afterwards: %v)", len(body), grown>>20, err)
	}
	debug.SetMaxStack(64 << 20)
	body = append([]byte("d5:peers"), bytes.Repeat([]byte("l"), 300000)...)
	if err := announce(); err == nil {
		t.Fatal("violation reproduced: 300000 nested lists accepted")
	}
}
