// rainvc:pkg internal/piecedownloader
package piecedownloader

// Replay adapter for (*PieceDownloader).Rejected#onlypending: a reject re-queues a block only if
// that block is pending. History: a fast-extension peer sends Reject for the same block 50
// times; the outstanding requests must stay within the queue length.
// FAILS when the real code violates the clause.

import (
	"testing"

	"github.com/cenkalti/rain/v2/internal/bufferpool"
	"github.com/cenkalti/rain/v2/internal/filesection"
	"github.com/cenkalti/rain/v2/internal/piece"
)

type rainvcPeer struct{ out map[uint32]int }

func (p *rainvcPeer) RequestPiece(i, b, l uint32) { p.out[b]++ }
func (p *rainvcPeer) CancelPiece(i, b, l uint32)  {}
func (p *rainvcPeer) EnabledFast() bool           { return true }

func TestRainvcReplay(t *testing.T) {
	const n, q, bs = 8, 4, piece.BlockSize
	pi := &piece.Piece{Length: n * bs, Data: filesection.Piece{{Length: n * bs}}}
	pe := &rainvcPeer{out: map[uint32]int{}}
	d := New(pi, pe, false, bufferpool.New(n*bs).Get(n*bs))
	d.RequestBlocks(q)
	for i := 0; i < 50; i++ {
		d.Rejected(3*bs, bs)
	}
	pe.out[3*bs]--
	for _, b := range []uint32{0, 1, 2, 4, 5} {
		if err := d.GotBlock(b*bs, make([]byte, bs)); err != nil {
			t.Fatal(err)
		}
		pe.out[b*bs]--
		d.RequestBlocks(q)
		tot := 0
		for _, c := range pe.out {
			tot += c
		}
		if tot > q {
			t.Fatalf("violation reproduced: after 50 rejects of one block and block %d received, %d block requests are outstanding; the limit is %d", b, tot, q)
		}
	}
}
