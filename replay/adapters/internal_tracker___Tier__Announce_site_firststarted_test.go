// rainvc:pkg torrent
// Replay adapter for (*Tier).announceStopped#site.onlyaccepted: 'stopped' goes to the members of a
// tier that accepted an announce, not to the current member. History: tier [a, b]; a accepts
// 'started', a later announce to a fails and the tier moves on to b; the torrent is stopped.
// FAILS when the real code violates the clause.
package torrent

import (
	"github.com/cenkalti/rain/v2/internal/tracker"
	"net/http"
	"net/http/httptest"
	"os"
	"sync"
	"testing"
	"time"
)

type zzTrk struct {
	mu     sync.Mutex
	events []string
	fail   bool
	srv    *httptest.Server
}

func newZZTrk() *zzTrk {
	z := &zzTrk{}
	z.srv = httptest.NewServer(http.HandlerFunc(func(w http.ResponseWriter, r *http.Request) {
		z.mu.Lock()
		ev := r.URL.Query().Get("event")
		if ev == "" {
			ev = "none"
		}
		n := len(z.events)
		z.events = append(z.events, ev)
		fail := z.fail && n >= 1
		z.mu.Unlock()
		if fail {
			http.Error(w, "down", 503)
			return
		}
		_, _ = w.Write([]byte("d8:intervali1e5:peers0:e"))
	}))
	return z
}
func (z *zzTrk) seen() []string {
	z.mu.Lock()
	defer z.mu.Unlock()
	return append([]string(nil), z.events...)
}
func TestRainvcReplay(t *testing.T) {
	s := newTestSession(t)
	s.config.TrackerStopTimeout = time.Second
	s.config.TrackerMinAnnounceInterval = 300 * time.Millisecond
	defer time.Sleep(1200 * time.Millisecond)
	a, b := newZZTrk(), newZZTrk()
	a.fail = true
	defer a.srv.Close()
	defer b.srv.Close()
	f, err := os.Open(torrentFile)
	if err != nil {
		t.Fatal(err)
	}
	defer f.Close()
	tor, err := s.AddTorrent(f, &AddTorrentOptions{Stopped: true})
	if err != nil {
		t.Fatal(err)
	}
	get := func(u string) tracker.Tracker {
		tr, err := s.trackerManager.Get(u+"/announce", s.config.TrackerHTTPTimeout, "zz", 1<<20)
		if err != nil {
			t.Fatal(err)
		}
		return tr
	}
	tor.torrent.trackers = []tracker.Tracker{&tracker.Tier{Trackers: []tracker.Tracker{get(a.srv.URL), get(b.srv.URL)}}}
	if err := tor.Start(); err != nil {
		t.Fatal(err)
	}
	deadline := time.Now().Add(10 * time.Second)
	for len(a.seen()) < 2 {
		if time.Now().After(deadline) {
			t.Fatalf("a saw %v", a.seen())
		}
		time.Sleep(5 * time.Millisecond)
	}
	time.Sleep(100 * time.Millisecond)
	if err := tor.Stop(); err != nil {
		t.Fatal(err)
	}
	for tor.Stats().Status != Stopped {
		if time.Now().After(deadline) {
			t.Fatal("not stopped")
		}
		time.Sleep(5 * time.Millisecond)
	}
	as, bs := a.seen(), b.seen()
	if len(bs) > 0 && bs[0] == "stopped" {
		t.Errorf("violation reproduced: 'stopped' sent to b which never accepted an announce: b saw %v", bs)
	}
	if as[len(as)-1] != "stopped" {
		t.Errorf("violation reproduced: a accepted 'started' but was not told 'stopped': %v", as)
	}
}
