// rainvc:pkg torrent
package torrent

// Replay adapter for (*torrent).handleStopped#final: a re-check that failed is not started
// over. History: the torrent's data directory cannot be created (a regular file is in the
// way), Verify().
// FAILS when the real code violates the clause.

import (
	"os"
	"path/filepath"
	"testing"
	"time"
)

func TestRainvcReplay(t *testing.T) {
	s := newTestSession(t)
	s.config.TrackerStopTimeout = 50 * time.Millisecond
	defer time.Sleep(300 * time.Millisecond)
	f, err := os.Open(torrentFile)
	if err != nil {
		t.Fatal(err)
	}
	defer f.Close()
	tor, err := s.AddTorrent(f, &AddTorrentOptions{Stopped: true})
	if err != nil {
		t.Fatal(err)
	}
	tor.torrent.trackers = nil
	dir := filepath.Join(s.config.DataDir, tor.ID())
	_ = os.RemoveAll(dir)
	if err := os.MkdirAll(filepath.Dir(dir), 0o750); err != nil {
		t.Fatal(err)
	}
	if err := os.WriteFile(dir, []byte("in the way"), 0o640); err != nil {
		t.Fatal(err)
	}
	if err := tor.Verify(); err != nil {
		t.Fatal(err)
	}
	time.Sleep(time.Second)
	// Sample the state: it must have settled in Stopped with the allocation error.
	notStopped := 0
	for i := 0; i < 50; i++ {
		if tor.Stats().Status != Stopped {
			notStopped++
		}
		time.Sleep(5 * time.Millisecond)
	}
	pending := tor.torrent.doVerify
	if pending || notStopped > 0 {
		tor.torrent.doVerify = false // let the test end
		time.Sleep(300 * time.Millisecond)
		t.Fatalf("violation reproduced: the re-check failed (allocation error) and is started over again and again: one second later the torrent was not Stopped in %d of 50 samples, re-check still pending: %v", notStopped, pending)
	}
}
