// rainvc:pkg internal/urldownloader
package urldownloader

// Replay adapter for (*URLDownloader).Run#loop1.mine / #site.mine: a buffer that was
// handed to the torrent in a PieceResult is never given back to the pool by the
// downloader. Scenario: the range is shortened (UpdateEnd, as WebseedStopAt does)
// after the jobs were created, the new last piece is delivered with Done=true, the
// torrent closes the downloader. FAILS when the real code violates the clause.

import (
	"net/http"
	"net/http/httptest"
	"runtime"
	"testing"
	"time"

	"github.com/cenkalti/rain/v2/internal/bufferpool"
	"github.com/cenkalti/rain/v2/internal/filesection"
	"github.com/cenkalti/rain/v2/internal/piece"
)

func TestRainvcReplay(t *testing.T) {
	defer runtime.GOMAXPROCS(runtime.GOMAXPROCS(1)) // one P: sync.Pool hands back what was just put
	const plen = 16
	hitA := make(chan struct{})
	gate := make(chan struct{})
	srv := httptest.NewServer(http.HandlerFunc(func(w http.ResponseWriter, r *http.Request) {
		switch r.URL.Path {
		case "/a":
			close(hitA)
			<-gate
			w.WriteHeader(http.StatusPartialContent)
			_, _ = w.Write(make([]byte, plen))
		default:
			<-r.Context().Done()
		}
	}))
	defer srv.Close()
	pieces := []piece.Piece{
		{Index: 0, Length: plen, Data: filesection.Piece{{Name: "a", Offset: 0, Length: plen}}},
		{Index: 1, Length: plen, Data: filesection.Piece{{Name: "b", Offset: 0, Length: plen}}},
	}
	pool := bufferpool.New(plen)
	d := New(srv.URL, 0, 2, nil)
	resultC := make(chan *PieceResult)
	go d.Run(srv.Client(), pieces, true, resultC, pool, time.Minute)
	select {
	case <-hitA:
	case <-time.After(10 * time.Second):
		t.Fatal("server not contacted")
	}
	d.UpdateEnd(1) // a peer took piece 1: the web seed stops after piece 0
	close(gate)
	var res *PieceResult
	select {
	case res = <-resultC:
	case <-time.After(10 * time.Second):
		t.Fatal("no result")
	}
	if res.Error != nil || !res.Done || res.Index != 0 {
		t.Fatalf("unexpected result %+v", res)
	}
	// the torrent now owns res.Buffer (it is being hashed and written) and closes the downloader
	d.Close()
	again := pool.Get(plen)
	if &again.Data[0] == &res.Buffer.Data[0] {
		t.Fatalf("violation reproduced: the buffer of piece %d, handed over with Done=true, was also returned to the pool by the downloader: the next pool.Get received (and zeroed) the same memory", res.Index)
	}
}
