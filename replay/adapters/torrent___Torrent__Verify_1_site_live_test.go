// rainvc:pkg torrent
// Replay adapter for (*Torrent).AddTracker$1#site.live and (*Torrent).Verify$1#site.live: a command
// on a torrent that was removed from the session returns an error instead of dereferencing the
// resume bucket that is gone. History: AddTorrent, RemoveTorrent, AddTracker / Verify on the
// handle that is still held.
// FAILS when the real code violates the clause.
package torrent

import (
	"bytes"
	"crypto/sha1"
	"github.com/cenkalti/rain/v2/internal/cachedpiece"
	"github.com/cenkalti/rain/v2/internal/fast"
	"github.com/cenkalti/rain/v2/internal/metainfo"
	"github.com/cenkalti/rain/v2/internal/piece"
	"github.com/cenkalti/rain/v2/internal/piececache"
	"github.com/cenkalti/rain/v2/internal/resumer/boltdbresumer"
	"github.com/zeebo/bencode"
	"net"
	"os"
	"os/exec"
	"path/filepath"
	"strconv"
	"strings"
	"testing"
	"time"
)

func zzCfg(t *testing.T) Config {
	tmp := t.TempDir()
	cfg := DefaultConfig
	cfg.Database = filepath.Join(tmp, "session.db")
	cfg.DataDir = tmp
	cfg.DHTEnabled, cfg.PEXEnabled, cfg.RPCEnabled = false, false, false
	cfg.Host = "127.0.0.1"
	cfg.TrackerStopTimeout = 50 * time.Millisecond
	cfg.PortBegin, cfg.PortEnd = 41000, 41010
	return cfg
}
func zzOpen(t *testing.T, cfg Config) *Session {
	s, err := NewSession(cfg)
	if err != nil {
		t.Fatal(err)
	}
	return s
}
func zzClose(s *Session) { defer func() { recover(); time.Sleep(200 * time.Millisecond) }(); s.Close() }
func zzFreePort(t *testing.T) int {
	l, _ := net.Listen("tcp", "127.0.0.1:0")
	defer l.Close()
	return l.Addr().(*net.TCPAddr).Port
}
func zzSampleInfo(t *testing.T) *metainfo.MetaInfo {
	f, _ := os.Open(torrentFile)
	defer f.Close()
	mi, err := metainfo.New(f)
	if err != nil {
		t.Fatal(err)
	}
	return mi
}
func zzURLs(t *Torrent) (r []string) {
	for _, tr := range t.torrent.trackers {
		r = append(r, tr.URL())
	}
	return
}

// runs fn in a child process (the same test re-executed); reports a Go panic in the child
func zzChild(t *testing.T, name string, fn func()) (string, bool) {
	if os.Getenv("ZZ_CHILD") == name {
		fn()
		os.Exit(0)
	}
	cmd := exec.Command(os.Args[0], "-test.run", "^"+t.Name()+"$")
	cmd.Env = append(os.Environ(), "ZZ_CHILD="+name)
	out, _ := cmd.CombinedOutput()
	s := string(out)
	if i := strings.Index(s, "panic:"); i >= 0 {
		e := i + 200
		if e > len(s) {
			e = len(s)
		}
		return s[i:e], true
	}
	return "", false
}

var _ = []any{bytes.Equal, sha1.Sum, net.Listen, exec.Command, strconv.Itoa, strings.Split, cachedpiece.New, fast.GenerateFastSet, piece.BlockSize, piececache.New, boltdbresumer.LatestVersion, bencode.EncodeBytes, zzChild, zzURLs, zzSampleInfo, zzFreePort}

func TestRainvcReplay(t *testing.T) {
	s := zzOpen(t, zzCfg(t))
	defer zzClose(s)
	f, _ := os.Open(torrentFile)
	defer f.Close()
	tor, err := s.AddTorrent(f, &AddTorrentOptions{Stopped: true})
	if err != nil {
		t.Fatal(err)
	}
	if err := s.RemoveTorrent(tor.ID(), true); err != nil {
		t.Fatal(err)
	}
	func() {
		defer func() {
			if r := recover(); r != nil {
				t.Errorf("violation reproduced: AddTracker after Remove panicked: %v", r)
			}
		}()
		_ = tor.AddTracker("http://127.0.0.1:1/announce")
	}()
	func() {
		defer func() {
			if r := recover(); r != nil {
				t.Errorf("violation reproduced: Verify after Remove panicked: %v", r)
			}
		}()
		_ = tor.Verify()
	}()
}
