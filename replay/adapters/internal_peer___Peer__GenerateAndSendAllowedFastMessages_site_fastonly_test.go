// rainvc:pkg internal/peer
package peer

// Replay adapter for (*Peer).GenerateAndSendAllowedFastMessages#site.fastonly: Allowed Fast
// messages (id 17) are sent only to peers that negotiated the Fast Extension.
// FAILS when the real code violates the clause.

import (
	"encoding/binary"
	"io"
	"net"
	"testing"
	"time"

	"github.com/cenkalti/rain/v2/internal/piece"
)

type rainvcTCPConn struct{ net.Conn }

func (c rainvcTCPConn) RemoteAddr() net.Addr { return &net.TCPAddr{IP: net.IPv4(9, 9, 9, 9), Port: 2} }
func (c rainvcTCPConn) LocalAddr() net.Addr  { return &net.TCPAddr{IP: net.IPv4(127, 0, 0, 1), Port: 1} }

func TestRainvcReplay(t *testing.T) {
	a, b := net.Pipe()
	defer a.Close()
	defer b.Close()
	pe := New(rainvcTCPConn{a}, 0, [20]byte{1}, [8]byte{}, 0, time.Minute, time.Minute, 10, 1<<20, nil, nil) // no extension bits: no Fast Extension
	messages := make(chan Message, 16)
	pieces := make(chan PieceMessage, 16)
	snubbed := make(chan *Peer, 1)
	disconnect := make(chan *Peer, 1)
	go pe.Run(messages, pieces, snubbed, disconnect)
	ps := make([]piece.Piece, 64)
	for i := range ps {
		ps[i].Index = uint32(i)
	}
	go pe.GenerateAndSendAllowedFastMessages(10, 64, [20]byte{5}, ps)
	_ = b.SetReadDeadline(time.Now().Add(time.Second))
	var l uint32
	if err := binary.Read(b, binary.BigEndian, &l); err != nil {
		return // nothing was sent: as it should be
	}
	x := make([]byte, l)
	_, _ = io.ReadFull(b, x)
	if len(x) > 0 && x[0] == 17 {
		t.Fatalf("violation reproduced: an Allowed Fast message (id 17) was sent to a peer that did not negotiate the Fast Extension")
	}
}
