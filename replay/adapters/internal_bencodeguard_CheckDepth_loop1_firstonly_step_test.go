// rainvc:pkg internal/peerprotocol
// Replay adapter for internal/bencodeguard.CheckDepth#loop1.firstonly.step: the guard stops after the first complete value
// (the demonstration of seeded change C11_f). FAILS when the real code violates the clause.
package peerprotocol

import (
	"bytes"
	"crypto/sha1"
	"strconv"
	"testing"
)

// seedInfoDict builds a bencoded info dictionary whose "pieces" string starts exactly at the
// 16 KiB metadata piece boundary, so that the second metadata piece begins with the length
// prefix of that string ("81920:") followed by the hashes.
func seedInfoDict(t *testing.T) []byte {
	t.Helper()
	const numPieces = 4096 // 4096 hashes of 20 bytes: "81920:"
	var b bytes.Buffer
	b.WriteString("d4:name")
	name := bytes.Repeat([]byte{'n'}, 16363)
	b.WriteString(strconv.Itoa(len(name)))
	b.WriteByte(':')
	b.Write(name)
	b.WriteString("6:pieces")
	if b.Len() != 16*1024 {
		t.Fatalf("test setup: pieces string starts at %d", b.Len())
	}
	b.WriteString(strconv.Itoa(numPieces * sha1.Size))
	b.WriteByte(':')
	for i := 0; i < numPieces; i++ {
		h := sha1.Sum([]byte(strconv.Itoa(i)))
		b.Write(h[:])
	}
	b.WriteByte('e')
	return b.Bytes()
}

// TestSeedMetadataPiecesRoundTrip emits every metadata piece of an info dictionary as an
// ut_metadata data message and decodes it with the client's own parser.
func TestRainvcReplay(t *testing.T) {
	info := seedInfoDict(t)
	const pieceLen = 16 * 1024
	for start, index := 0, uint32(0); start < len(info); start, index = start+pieceLen, index+1 {
		end := start + pieceLen
		if end > len(info) {
			end = len(info)
		}
		sent := ExtensionMetadataMessage{
			Type:      ExtensionMetadataMessageTypeData,
			Piece:     index,
			TotalSize: len(info),
			Data:      info[start:end],
		}
		msg := ExtensionMessage{ExtendedMessageID: ExtensionIDMetadata, Payload: sent}

		var buf bytes.Buffer
		n, err := msg.WriteTo(&buf)
		if err != nil {
			t.Fatalf("piece %d: WriteTo: %v", index, err)
		}
		if n != int64(buf.Len()) {
			t.Fatalf("piece %d: WriteTo reported %d bytes, wrote %d", index, n, buf.Len())
		}

		var got ExtensionMessage
		if err = got.UnmarshalBinary(buf.Bytes()); err != nil {
			t.Errorf("piece %d (data begins with %q): own message does not decode: %v", index, sent.Data[:6], err)
			continue
		}
		payload, ok := got.Payload.(ExtensionMetadataMessage)
		if !ok {
			t.Errorf("piece %d: decoded payload is %T", index, got.Payload)
			continue
		}
		if payload.Type != sent.Type || payload.Piece != sent.Piece || payload.TotalSize != sent.TotalSize {
			t.Errorf("piece %d: header %+v, want %+v", index, payload, sent)
		}
		if !bytes.Equal(payload.Data, sent.Data) {
			t.Errorf("piece %d: data differs (%d bytes, want %d)", index, len(payload.Data), len(sent.Data))
		}
	}
}

// TestSeedMetadataDataLooksLikeBencode sends small metadata blocks whose raw bytes happen to look
// like the beginning of bencoded values.
func zzUnusedTestSeedMetadataDataLooksLikeBencode(t *testing.T) {
	blocks := []string{
		"1048576:\x00\x01\x02",                 // tail of "...6:pieces1048576:<hashes>"
		"99999999",                             // digits of a large integer cut at the boundary
		string(bytes.Repeat([]byte{'l'}, 100)), // a run of 'l' bytes inside a file name
		"e",
		"",
	}
	for _, block := range blocks {
		sent := ExtensionMetadataMessage{
			Type:      ExtensionMetadataMessageTypeData,
			Piece:     1,
			TotalSize: 16*1024 + len(block),
			Data:      []byte(block),
		}
		var buf bytes.Buffer
		if _, err := (ExtensionMessage{ExtendedMessageID: ExtensionIDMetadata, Payload: sent}).WriteTo(&buf); err != nil {
			t.Fatal(err)
		}
		var got ExtensionMessage
		if err := got.UnmarshalBinary(buf.Bytes()); err != nil {
			t.Errorf("data %q: own message does not decode: %v", block, err)
			continue
		}
		payload := got.Payload.(ExtensionMetadataMessage)
		if !bytes.Equal(payload.Data, sent.Data) {
			t.Errorf("data %q: decoded %q", block, payload.Data)
		}
	}
}
