// rainvc:pkg internal/tracker
package tracker

// Replay adapter for (*Tier).Announce#nostale: a failure of an announce that started before
// the tier moved on (a stale failure) does not move the tier away from the tracker that
// answers. Overlapping announces on a tier of three trackers.
// FAILS when the real code violates the clause.

import (
	"context"
	"errors"
	"sync"
	"testing"
	"time"
)

// seedScriptedTracker is a Tracker whose outcome is scripted per call. A call
// can optionally be held inside Announce until the test releases it, which
// models a slow (timing out) announce that overlaps with later announces.
type seedScriptedTracker struct {
	url string

	mu      sync.Mutex
	hits    int
	ok      bool
	holdN   int           // 1-based call number to hold, 0 = never
	entered chan struct{} // closed when the held call is inside Announce
	release chan struct{} // closed by the test to let the held call finish
}

func (s *seedScriptedTracker) Announce(_ context.Context, _ AnnounceRequest) (*AnnounceResponse, error) {
	s.mu.Lock()
	s.hits++
	n := s.hits
	ok := s.ok
	s.mu.Unlock()
	if n == s.holdN {
		close(s.entered)
		<-s.release
	}
	if ok {
		return &AnnounceResponse{}, nil
	}
	return nil, errors.New("tracker down")
}

func (s *seedScriptedTracker) URL() string { return s.url }

func (s *seedScriptedTracker) count() int {
	s.mu.Lock()
	defer s.mu.Unlock()
	return s.hits
}

// A tracker of the tier that answers must keep being used, also when an older,
// slower announce to a dead member of the tier fails after the tier has
// already moved on to the answering tracker.
func TestRainvcReplay(t *testing.T) {
	t0 := &seedScriptedTracker{url: "t0", holdN: 1, entered: make(chan struct{}), release: make(chan struct{})}
	t1 := &seedScriptedTracker{url: "t1"}
	t2 := &seedScriptedTracker{url: "t2", ok: true}
	tier := &Tier{Trackers: []Tracker{t0, t1, t2}}
	ctx := context.Background()

	// Announce A goes to t0 and hangs there (e.g. waiting for a timeout).
	slowDone := make(chan error, 1)
	go func() {
		_, err := tier.Announce(ctx, AnnounceRequest{})
		slowDone <- err
	}()
	select {
	case <-t0.entered:
	case <-time.After(5 * time.Second):
		t.Fatal("slow announce did not reach t0")
	}

	// Meanwhile other announces fail over t0 -> t1 -> t2 and t2 answers.
	if _, err := tier.Announce(ctx, AnnounceRequest{}); err == nil {
		t.Fatal("announce to t0 must fail")
	}
	if _, err := tier.Announce(ctx, AnnounceRequest{}); err == nil {
		t.Fatal("announce to t1 must fail")
	}
	if _, err := tier.Announce(ctx, AnnounceRequest{}); err != nil {
		t.Fatalf("announce to t2 must succeed: %v", err)
	}
	if got := tier.URL(); got != "t2" {
		t.Fatalf("tier must have settled on t2, got %s", got)
	}

	// Now the old announce to t0 finally fails.
	close(t0.release)
	select {
	case err := <-slowDone:
		if err == nil {
			t.Fatal("slow announce to t0 must fail")
		}
	case <-time.After(5 * time.Second):
		t.Fatal("slow announce did not finish")
	}

	// The tier must still use the tracker that answers.
	if got := tier.URL(); got != "t2" {
		t.Errorf("violation reproduced: tier left the answering tracker after a stale failure: current=%s want t2", got)
	}
	before1, before2 := t1.count(), t2.count()
	for i := 0; i < 3; i++ {
		if _, err := tier.Announce(ctx, AnnounceRequest{}); err != nil {
			t.Errorf("announce %d after stale failure failed: %v", i, err)
		}
	}
	if d := t1.count() - before1; d != 0 {
		t.Errorf("dead tracker t1 got %d more announces, want 0", d)
	}
	if d := t2.count() - before2; d != 3 {
		t.Errorf("answering tracker t2 got %d announces, want 3", d)
	}
}
