// rainvc:pkg torrent
package torrent

// Replay adapter for (*torrent).handlePeerMessage#site.pexcap: at most 200 addresses of a PEX
// message are decoded. One ut_pex message with a 6 MB "added" string (the reader accepts messages
// up to the maximum message size) must not keep the torrent's event loop busy for seconds or
// allocate many times its size.
// FAILS when the real code violates the clause.

import (
	mrand "math/rand"
	"net"
	"os"
	"runtime"
	"testing"
	"time"

	"github.com/cenkalti/rain/v2/internal/peer"
	"github.com/cenkalti/rain/v2/internal/peerprotocol"
	"github.com/cenkalti/rain/v2/internal/peersource"
)

type zzConn struct{ net.Conn }

func (zzConn) RemoteAddr() net.Addr { return &net.TCPAddr{IP: net.IPv4(9, 9, 9, 9), Port: 2} }
func zzStoppedTorrent(t *testing.T) *torrent {
	s := newTestSession(t)
	f, err := os.Open(torrentFile)
	if err != nil {
		t.Fatal(err)
	}
	defer f.Close()
	tor, err := s.AddTorrent(f, &AddTorrentOptions{Stopped: true})
	if err != nil {
		t.Fatal(err)
	}
	return tor.torrent
}
func TestRainvcReplay(t *testing.T) {
	tt := zzStoppedTorrent(t)
	tt.session.config.PEXEnabled = true
	tt.session.config.MaxPeerDial = 0 // keep the test from dialing
	tt.errC = make(chan error, 1)     // status() == Downloading
	defer func() { tt.errC = nil }()
	a, b := net.Pipe()
	defer a.Close()
	defer b.Close()
	pe := peer.New(zzConn{a}, peersource.Manual, [20]byte{7}, [8]byte{}, 0, time.Minute, time.Minute, 10, 1<<20, nil, nil)
	added := make([]byte, 6*1_000_000) // 6 MB; reader accepts up to 30 MiB
	mrand.New(mrand.NewSource(1)).Read(added)
	var m0, m1 runtime.MemStats
	runtime.ReadMemStats(&m0)
	start := time.Now()
	tt.handlePeerMessage(peer.Message{Peer: pe, Message: peerprotocol.ExtensionPEXMessage{Added: string(added)}})
	el := time.Since(start)
	runtime.ReadMemStats(&m1)
	mb := (m1.TotalAlloc - m0.TotalAlloc) >> 20
	if el > time.Second || mb > 12 {
		t.Errorf("violation reproduced: one 6 MB PEX message kept the event loop busy for %v and allocated %d MB (%d addresses kept)", el, mb, tt.addrList.Len())
	}
}
