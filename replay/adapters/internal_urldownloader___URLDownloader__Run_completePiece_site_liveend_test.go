// rainvc:pkg internal/urldownloader
// Replay adapter for internal/urldownloader.(*URLDownloader).Run$completePiece#site.liveend: the last-piece test reads the live end of the range
// (the demonstration of seeded change C09_f). FAILS when the real code violates the clause.
package urldownloader

import (
	"fmt"
	"net/http"
	"net/http/httptest"
	"strconv"
	"testing"
	"time"

	"github.com/cenkalti/rain/v2/internal/bufferpool"
	"github.com/cenkalti/rain/v2/internal/filesection"
	"github.com/cenkalti/rain/v2/internal/piece"
)

// The piece picker shortens the range of a running webseed download (UpdateEnd) when a peer or
// another webseed source steals the tail of the range. The stolen pieces are assigned to someone
// else from then on, so the downloader must finish at the new end and must not deliver them.
func TestRainvcReplay(t *testing.T) {
	const pieceLength = 16
	const numPieces = 6
	data := make([]byte, pieceLength*numPieces)
	for i := range data {
		data[i] = byte(i)
	}
	pieces := make([]piece.Piece, numPieces)
	for i := range pieces {
		pieces[i] = piece.Piece{Index: uint32(i), Length: pieceLength, Data: []filesection.FileSection{
			{Name: "file", Offset: int64(i * pieceLength), Length: pieceLength},
		}}
	}

	// Server sends the first piece of the requested range, then waits until the range is shortened.
	proceed := make(chan struct{})
	srv := httptest.NewServer(http.HandlerFunc(func(w http.ResponseWriter, r *http.Request) {
		var begin, end int
		_, err := fmt.Sscanf(r.Header.Get("Range"), "bytes=%d-%d", &begin, &end)
		if err != nil || begin < 0 || end >= len(data) || begin > end {
			http.Error(w, "bad range", http.StatusRequestedRangeNotSatisfiable)
			return
		}
		body := data[begin : end+1]
		w.Header().Set("Content-Length", strconv.Itoa(len(body)))
		w.Header().Set("Content-Range", fmt.Sprintf("bytes %d-%d/%d", begin, end, len(data)))
		w.WriteHeader(http.StatusPartialContent)
		first := min(pieceLength, len(body))
		_, _ = w.Write(body[:first])
		w.(http.Flusher).Flush()
		select {
		case <-proceed:
		case <-r.Context().Done():
			return
		}
		_, _ = w.Write(body[first:])
	}))
	defer srv.Close()

	// Webseed is assigned pieces 1-5.
	d := New(srv.URL+"/file", 1, 6, nil)
	pool := bufferpool.New(pieceLength)
	resultC := make(chan *PieceResult)
	go d.Run(http.DefaultClient, pieces, false, resultC, pool, 10*time.Second)
	defer d.Close()

	recv := func() *PieceResult {
		select {
		case res := <-resultC:
			if res.Error != nil {
				t.Fatalf("download error: %v", res.Error)
			}
			return res
		case <-time.After(10 * time.Second):
			t.Fatal("timeout waiting for piece result")
			return nil
		}
	}

	res := recv()
	if res.Index != 1 || res.Done {
		t.Fatalf("unexpected first result: index=%d done=%v", res.Index, res.Done)
	}
	res.Buffer.Release()

	// A peer steals piece #3: the range of the webseed becomes 1-3 and pieces 3, 4 and 5 are free
	// to be assigned to peers and other webseed sources.
	d.UpdateEnd(3)
	close(proceed)

	res = recv()
	if res.Index != 2 {
		t.Fatalf("unexpected second result: index=%d", res.Index)
	}
	res.Buffer.Release()
	if !res.Done {
		// Show what the downloader delivers past the end of its range.
		select {
		case extra := <-resultC:
			t.Fatalf("downloader did not finish at piece #2 after its range is shortened to 1-3; it delivered piece #%d that is outside of its range", extra.Index)
		case <-time.After(5 * time.Second):
			t.Fatal("downloader did not report completion at piece #2 after its range is shortened to 1-3")
		}
	}
	if got := d.ReadCurrent(); got != 2 {
		t.Fatalf("downloader moved past the end of its range: current=%d", got)
	}
}
