// rainvc:pkg torrent
package torrent

// Replay adapter for (*torrent).startAnnouncers#complete: when the announcers are (re)started every
// tracker of the torrent has one, also when some announcers are running already. State as after
// the metadata of a magnet link arrived (the announcers of the metadata phase are running) and a
// tracker was added while the files were being allocated (it got no announcer then).
// FAILS when the real code violates the clause.

import (
	"os"
	"testing"
	"time"
)

func TestRainvcReplay(t *testing.T) {
	s := newTestSession(t)
	s.config.TrackerStopTimeout = 100 * time.Millisecond
	defer time.Sleep(400 * time.Millisecond)
	f, err := os.Open(torrentFile)
	if err != nil {
		t.Fatal(err)
	}
	defer f.Close()
	tor, err := s.AddTorrent(f, &AddTorrentOptions{Stopped: true})
	if err != nil {
		t.Fatal(err)
	}
	tt := tor.torrent
	get := func(u string) {
		tr, err := s.trackerManager.Get(u, time.Second, "rainvc", 1<<20)
		if err != nil {
			t.Fatal(err)
		}
		tt.trackers = append(tt.trackers, tr)
	}
	tt.trackers = nil
	get("http://127.0.0.1:1/a")
	tt.startNewAnnouncer(tt.trackers[0]) // running since the metadata phase
	get("http://127.0.0.1:1/b")          // added while allocating: no announcer yet
	tt.startAnnouncers()
	n := len(tt.announcers)
	tt.stopPeriodicalAnnouncers()
	if n != 2 {
		t.Fatalf("violation reproduced: the torrent has 2 trackers and, after startAnnouncers, %d announcer(s): the tracker that was added while no announcer could be started is not announced to in this run", n)
	}
}
