// rainvc:pkg internal/tracker
package tracker

// Replay adapter for internal/tracker.(*Tier).Announce#rotate: after every
// failed announce the next announce must go to the next member of the tier,
// cyclically, for ever. The test FAILS when the real code violates the clause.

import (
	"context"
	"errors"
	"testing"
)

type rainvcStub struct {
	name  string
	calls *[]string
}

func (s rainvcStub) Announce(ctx context.Context, req AnnounceRequest) (*AnnounceResponse, error) {
	*s.calls = append(*s.calls, s.name)
	return nil, errors.New("down")
}
func (s rainvcStub) URL() string { return s.name }

func TestRainvcReplay(t *testing.T) {
	var calls []string
	tier := &Tier{Trackers: []Tracker{rainvcStub{"a", &calls}, rainvcStub{"b", &calls}, rainvcStub{"c", &calls}}}
	for i := 0; i < 9; i++ {
		_, _ = tier.Announce(context.Background(), AnnounceRequest{})
	}
	want := []string{"a", "b", "c", "a", "b", "c", "a", "b", "c"}
	for i := range want {
		if calls[i] != want[i] {
			t.Fatalf("violation reproduced: announce order %v, want cyclic %v (stored index %d)", calls, want, tier.index.Load())
		}
	}
}
