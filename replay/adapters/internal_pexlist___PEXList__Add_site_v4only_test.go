// rainvc:pkg internal/pexlist
package pexlist

// Replay adapter for (*PEXList).Add#site.v4only: an IPv6 peer is not put into the compact (IPv4)
// PEX list, where it would be advertised to every peer as 0.0.0.0:<port>.
// FAILS when the real code violates the clause.

import (
	"net"
	"testing"
)

func TestRainvcReplay(t *testing.T) {
	l := New()
	l.Add(&net.TCPAddr{IP: net.ParseIP("2001:db8::1"), Port: 6881})
	l.Add(&net.TCPAddr{IP: net.ParseIP("2001:db8::2"), Port: 6881})
	added, _ := l.Flush()
	for i := 0; i+6 <= len(added); i += 6 {
		if ip := net.IP(added[i : i+4]); ip.IsUnspecified() {
			t.Fatalf("violation reproduced: the PEX 'added' list carries %s:%d for an IPv6 peer (2 peers -> %d entry)", ip, int(added[i+4])<<8|int(added[i+5]), len(added)/6)
		}
	}
}
