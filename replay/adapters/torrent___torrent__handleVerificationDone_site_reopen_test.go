// rainvc:pkg torrent
package torrent

// Replay adapter for (*torrent).handleVerificationDone#i1: when a verification
// finds missing pieces in a torrent that had completed, the completion channel
// must be open again, otherwise the next completion closes a closed channel.
// FAILS (with the recovered panic) when the real code violates the invariant.

import (
	"bytes"
	"crypto/sha1"
	"testing"
	"time"

	"github.com/cenkalti/rain/v2/internal/bitfield"
	"github.com/cenkalti/rain/v2/internal/piece"
	"github.com/cenkalti/rain/v2/internal/verifier"
)

func TestRainvcReplay(t *testing.T) {
	s := newTestSession(t)
	s.config.TrackerStopTimeout = 50 * time.Millisecond
	pieces := sha1.Sum(make([]byte, 16384))
	var b bytes.Buffer
	b.WriteString("d4:infod6:lengthi16384e4:name8:rainvc0412:piece lengthi16384e6:pieces20:")
	b.Write(pieces[:])
	b.WriteString("ee")
	tor, err := s.AddTorrent(bytes.NewReader(b.Bytes()), &AddTorrentOptions{Stopped: true})
	if err != nil {
		t.Fatal(err)
	}
	tt := tor.torrent
	// State of a torrent that completed earlier in this run: completed, channel closed.
	tt.pieces = make([]piece.Piece, 1)
	tt.completed = true
	close(tt.completeC)
	// A manual verification now finds the piece missing.
	ve := &verifier.Verifier{Bitfield: bitfield.New(1)}
	tt.verifier = ve
	tt.doVerify = true
	tt.errC = make(chan error, 1) // "started" so that stop() takes effect
	tt.handleVerificationDone(ve)
	if tt.completed {
		t.Fatal("setup: torrent still completed")
	}
	// The piece is downloaded again: completion is detected a second time.
	tt.bitfield.Set(0)
	defer func() {
		if r := recover(); r != nil {
			t.Fatalf("violation reproduced: second completion panicked: %v", r)
		}
	}()
	tt.checkCompletion()
}
