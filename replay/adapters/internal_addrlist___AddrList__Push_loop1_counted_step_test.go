// rainvc:pkg internal/addrlist
package addrlist

// Replay adapter for (*AddrList).Push#loop1.counted: every insertion or replacement made by
// Push is counted once, so the per-source counters keep summing to the number of entries
// (and never go negative), also when a known address is pushed again.
// FAILS when the real code violates the clause.

import (
	"net"
	"testing"

	"github.com/cenkalti/rain/v2/internal/peersource"
)

func TestRainvcReplay(t *testing.T) {
	ip := net.IPv4(10, 0, 0, 1)
	d := New(100, nil, 6881, &ip)
	addr := func(i int) *net.TCPAddr { return &net.TCPAddr{IP: net.IPv4(8, 8, byte(i>>8), byte(i)), Port: 1000 + i} }
	sources := []peersource.Source{peersource.Tracker, peersource.DHT, peersource.PEX}
	check := func(ev string) {
		sum := 0
		for _, s := range sources {
			n := d.LenSource(s)
			if n < 0 {
				t.Fatalf("violation reproduced: after %s the counter of source %v is %d", ev, s, n)
			}
			sum += n
		}
		if sum != d.Len() {
			t.Fatalf("violation reproduced: after %s the per-source counters sum to %d, the list holds %d addresses", ev, sum, d.Len())
		}
	}
	d.Push([]*net.TCPAddr{addr(1), addr(2), addr(3)}, peersource.Tracker)
	check("first push")
	d.Push([]*net.TCPAddr{addr(2), addr(3), addr(4)}, peersource.DHT)
	check("push of two known addresses from another source")
	d.Push([]*net.TCPAddr{addr(2)}, peersource.DHT)
	check("re-announce of a known address")
	d.Pop()
	check("pop")
	d.Push([]*net.TCPAddr{addr(1), addr(2), addr(3), addr(4)}, peersource.PEX)
	check("push of known addresses after a pop")
}
