// rainvc:pkg internal/cachedpiece
package cachedpiece

// Replay adapter for (*CachedPiece).ReadAt#full: a read that succeeds returns
// exactly len(p) bytes of the piece, also when the range crosses a cache block.
// FAILS when the real code violates the clause.

import (
	"io"
	"testing"
	"time"

	"github.com/cenkalti/rain/v2/internal/filesection"
	"github.com/cenkalti/rain/v2/internal/piece"
	"github.com/cenkalti/rain/v2/internal/piececache"
)

type rainvcMem struct{ b []byte }

func (m *rainvcMem) ReadAt(p []byte, off int64) (int, error) {
	if off >= int64(len(m.b)) {
		return 0, io.EOF
	}
	n := copy(p, m.b[off:])
	if n < len(p) {
		return n, io.EOF
	}
	return n, nil
}
func (m *rainvcMem) WriteAt(p []byte, off int64) (int, error) { return copy(m.b[off:], p), nil }

func TestRainvcReplay(t *testing.T) {
	data := make([]byte, 300)
	for i := range data {
		data[i] = byte(i + 1)
	}
	pi := piece.Piece{Index: 3, Length: uint32(len(data)), Data: filesection.Piece{{File: &rainvcMem{data}, Offset: 0, Length: int64(len(data))}}}
	cache := piececache.New(1<<20, time.Minute, 1)
	defer cache.Close()
	const readSize = 128
	cp := New(&pi, cache, readSize, [20]byte{9})
	for off := 0; off < len(data); off++ {
		for _, l := range []int{1, 2, 4, 100, 200} {
			if off+l > len(data) {
				continue
			}
			p := make([]byte, l)
			n, err := cp.ReadAt(p, int64(off))
			if err != nil {
				t.Fatalf("ReadAt(len %d, off %d): %v", l, off, err)
			}
			if n != l || string(p) != string(data[off:off+l]) {
				t.Fatalf("violation reproduced: ReadAt(len %d, off %d, readSize %d) returned n=%d err=nil, bytes %v, want %v", l, off, readSize, n, p, data[off:off+l])
			}
		}
	}
}
