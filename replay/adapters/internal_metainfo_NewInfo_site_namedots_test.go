// rainvc:pkg internal/metainfo
package metainfo

// Replay adapter for NewInfo#site.namedots / #singlename: no file path of an
// accepted info dictionary may start with (or be) "..". FAILS when the real
// code accepts such a name.

import (
	"path/filepath"
	"strings"
	"testing"
)

func TestRainvcReplay(t *testing.T) {
	multi := "d5:filesld6:lengthi16384e4:pathl1:aeee4:name2:..12:piece lengthi16384e6:pieces20:" + strings.Repeat("h", 20) + "e"
	single := "d6:lengthi16384e4:name2:..12:piece lengthi16384e6:pieces20:" + strings.Repeat("h", 20) + "e"
	for _, in := range []string{multi, single} {
		info, err := NewInfo([]byte(in), true, true)
		if err != nil {
			continue
		}
		for _, f := range info.Files {
			p := filepath.Join("/data/dir", f.Path)
			if p != "/data/dir" && !strings.HasPrefix(p, "/data/dir/") || f.Path == ".." || strings.HasPrefix(f.Path, "../") {
				t.Fatalf("violation reproduced: name %q accepted; file path %q resolves to %q, outside the data directory", info.Name, f.Path, p)
			}
		}
	}
}
