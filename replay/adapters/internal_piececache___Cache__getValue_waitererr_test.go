// rainvc:pkg internal/piececache
// Replay adapter for internal/piececache.(*Cache).getValue#waitererr: a reader that finds a failed load gets its error
// (the demonstration of seeded change C03_g). FAILS when the real code violates the clause.
package piececache

import (
	"bytes"
	"errors"
	"testing"
	"time"
)

// Two peers ask for the same cache block at the same time and the disk read
// behind it fails half way (e.g. the file got truncated). Neither of them may
// be handed the partially filled buffer as if it was piece data.
func TestRainvcReplay(t *testing.T) {
	c := New(1<<20, time.Minute, 1)
	defer c.Close()

	want := bytes.Repeat([]byte{0xAB}, 1024)
	errRead := errors.New("short read")

	entered := make(chan struct{})
	release := make(chan struct{})
	// Same shape as the loader in cachedpiece: allocate the block, fill what
	// could be read, return the buffer together with the error.
	failing := func() ([]byte, error) {
		close(entered)
		<-release
		b := make([]byte, len(want))
		copy(b, want[:100])
		return b, errRead
	}

	type result struct {
		b   []byte
		err error
	}
	first := make(chan result, 1)
	go func() {
		b, err := c.Get("blk", failing)
		first <- result{b, err}
	}()
	<-entered

	// Second request for the same block arrives while the first is loading
	// (this is what Get does, split so the ordering is deterministic).
	it := c.getItem("blk")
	second := make(chan result, 1)
	go func() {
		b, err := c.getValue(it, func() ([]byte, error) { return want, nil })
		second <- result{b, err}
	}()
	time.Sleep(50 * time.Millisecond)
	close(release)

	for name, ch := range map[string]chan result{"first": first, "second": second} {
		select {
		case r := <-ch:
			if r.err == nil && !bytes.Equal(r.b, want) {
				t.Errorf("%s request got %d bytes of wrong data without an error", name, len(r.b))
			}
		case <-time.After(10 * time.Second):
			t.Fatalf("%s request did not return", name)
		}
	}
}
