// rainvc:pkg internal/tracker/udptracker
// Replay adapter for internal/tracker/udptracker.(*UDPTracker).Announce#interval: the interval handed to the announcer is the reply's seconds, for every 32-bit value
// (the demonstration of seeded change C15_g). FAILS when the real code violates the clause.
package udptracker

import (
	"context"
	"encoding/binary"
	"net"
	"net/url"
	"testing"
	"time"

	"github.com/cenkalti/rain/v2/internal/tracker"
)

// seedServeUDP answers connect requests and answers every announce with the given interval.
func seedServeUDP(t *testing.T, interval int32) (addr string, closeFn func()) {
	t.Helper()
	conn, err := net.ListenUDP("udp4", &net.UDPAddr{IP: net.IPv4(127, 0, 0, 1)})
	if err != nil {
		t.Fatal(err)
	}
	go func() {
		buf := make([]byte, 2048)
		for {
			n, raddr, err := conn.ReadFromUDP(buf)
			if err != nil {
				return
			}
			if n < 16 {
				continue
			}
			act := binary.BigEndian.Uint32(buf[8:12])
			trx := buf[12:16]
			switch act {
			case 0: // connect
				out := make([]byte, 16)
				copy(out[4:8], trx)
				binary.BigEndian.PutUint64(out[8:16], 0x1122334455667788)
				_, _ = conn.WriteToUDP(out, raddr)
			case 1: // announce
				out := make([]byte, 20)
				binary.BigEndian.PutUint32(out[0:4], 1)
				copy(out[4:8], trx)
				binary.BigEndian.PutUint32(out[8:12], uint32(interval))
				_, _ = conn.WriteToUDP(out, raddr)
			}
		}
	}()
	return conn.LocalAddr().String(), func() { conn.Close() }
}

func TestRainvcReplay(t *testing.T) {
	// Positive 32-bit interval values, small and large, must reach the announcer as that
	// many seconds; zero and negative ones must not turn into a positive wait.
	cases := []int32{1, 1800, 86400, 2147483, 2147484, 4294968, 30000000, 2147483647, 0, -1, -2147483648}
	for _, iv := range cases {
		addr, closeFn := seedServeUDP(t, iv)
		rawURL := "udp://" + addr + "/announce"
		u, err := url.Parse(rawURL)
		if err != nil {
			t.Fatal(err)
		}
		tr := NewTransport(nil, 5*time.Second)
		go tr.Run()
		trk := New(rawURL, u, tr)
		ctx, cancel := context.WithTimeout(context.Background(), 5*time.Second)
		resp, err := trk.Announce(ctx, tracker.AnnounceRequest{
			Torrent: tracker.Torrent{Port: 6881, PeerID: [20]byte{1, 2, 3}, InfoHash: [20]byte{9}, BytesLeft: 1},
			Event:   tracker.EventStarted,
			NumWant: 10,
		})
		cancel()
		tr.Close()
		closeFn()
		if err != nil {
			t.Fatalf("interval %d: announce failed: %v", iv, err)
		}
		want := time.Duration(iv) * time.Second
		if resp.Interval != want {
			t.Errorf("tracker interval %d s: announcer was told %v, want %v", iv, resp.Interval, want)
		}
		if iv > 0 && resp.Interval < time.Duration(iv)*time.Second {
			t.Errorf("tracker interval %d s shortened to %v: the next announce would come too early", iv, resp.Interval)
		}
	}
}
