// rainvc:pkg internal/verifier
// Replay adapter for internal/verifier.(*Verifier).Run#site.afterfullread: a piece is hashed only after a read that returned all its bytes
// (the demonstration of seeded change C05_g). FAILS when the real code violates the clause.
package verifier

import (
	"bytes"
	"crypto/sha1"
	"io"
	"testing"
	"time"

	"github.com/cenkalti/rain/v2/internal/filesection"
	"github.com/cenkalti/rain/v2/internal/piece"
)

type seedMemFile struct{ b []byte }

func (m *seedMemFile) ReadAt(p []byte, off int64) (int, error) {
	if off >= int64(len(m.b)) {
		return 0, io.EOF
	}
	n := copy(p, m.b[off:])
	if n < len(p) {
		return n, io.EOF
	}
	return n, nil
}

func (m *seedMemFile) WriteAt(p []byte, off int64) (int, error) {
	if off+int64(len(p)) > int64(len(m.b)) {
		return 0, io.ErrShortWrite
	}
	return copy(m.b[off:], p), nil
}

// Two consecutive pieces of a torrent have the same content (very common: runs of
// zeroes or repeated records). Each piece lives in its own file. The first file is
// complete on disk. The second file lost its tail before the restart (the process
// died before the data reached the file). A re-check must never report the second
// piece as present: its content is not on disk.
func seedRun(t *testing.T, onDisk int) *Verifier {
	t.Helper()
	const pieceLen = 64
	content := bytes.Repeat([]byte{0xAB}, pieceLen)
	sum := sha1.Sum(content)

	full := &seedMemFile{b: append([]byte(nil), content...)}
	short := &seedMemFile{b: append([]byte(nil), content[:onDisk]...)}

	pieces := []piece.Piece{
		{Index: 0, Length: pieceLen, Hash: sum[:], Data: filesection.Piece{{File: full, Offset: 0, Length: pieceLen, Name: "a"}}},
		{Index: 1, Length: pieceLen, Hash: sum[:], Data: filesection.Piece{{File: short, Offset: 0, Length: pieceLen, Name: "b"}}},
	}

	v := New()
	progressC := make(chan Progress, len(pieces))
	resultC := make(chan *Verifier, 1)
	go v.Run(pieces, progressC, resultC)
	select {
	case res := <-resultC:
		return res
	case <-time.After(10 * time.Second):
		t.Fatal("verifier did not finish")
		return nil
	}
}

func TestRainvcReplay(t *testing.T) {
	for _, onDisk := range []int{0, 1, 32, 63} {
		res := seedRun(t, onDisk)
		if !res.Bitfield.Test(0) {
			t.Fatalf("onDisk=%d: piece 0 is complete on disk and must be verified", onDisk)
		}
		if res.Bitfield.Test(1) {
			t.Fatalf("onDisk=%d: piece 1 reported as verified although only %d of 64 bytes are on disk (err=%v)", onDisk, onDisk, res.Error)
		}
	}
}
