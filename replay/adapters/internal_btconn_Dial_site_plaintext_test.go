// rainvc:pkg internal/btconn
package btconn

// Replay adapter for Dial#site.plaintext: when outgoing encryption is forced no plaintext
// handshake is written, whatever the other encryption options say. Configuration:
// DisableOutgoingEncryption (enableEncryption=false) together with ForceOutgoingEncryption.
// FAILS when the real code violates the clause.

import (
	"bytes"
	"io"
	"net"
	"testing"
	"time"
)

func TestRainvcReplay(t *testing.T) {
	ln, err := net.Listen("tcp4", "127.0.0.1:0")
	if err != nil {
		t.Skip(err)
	}
	defer ln.Close()
	first := make(chan []byte, 4)
	go func() {
		for {
			c, err := ln.Accept()
			if err != nil {
				return
			}
			b := make([]byte, 20)
			_ = c.SetDeadline(time.Now().Add(2 * time.Second))
			n, _ := io.ReadFull(c, b)
			first <- b[:n]
			c.Close()
		}
	}()
	var ih, id [20]byte
	var ext [8]byte
	copy(ih[:], "01234567890123456789")
	copy(id[:], "-RN0000-abcdefghijkl")
	stopC := make(chan struct{})
	conn, _, _, _, err := Dial(ln.Addr(), time.Second, time.Second, false, true, ext, ih, id, stopC)
	if err == nil {
		conn.Close()
	}
	select {
	case b := <-first:
		if bytes.Equal(b, []byte("\x13BitTorrent protocol")) {
			t.Fatalf("violation reproduced: outgoing encryption is forced, yet the connection starts with the plaintext handshake %q", b)
		}
	case <-time.After(3 * time.Second):
		t.Skip("nothing was written")
	}
}
