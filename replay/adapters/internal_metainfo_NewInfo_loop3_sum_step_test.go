// rainvc:pkg internal/metainfo
package metainfo

// Replay adapter for NewInfo#loop3.nonneg.step / #loop3.sum.step: an accepted
// info dictionary has non-negative file lengths whose exact (non-wrapping) sum
// is Info.Length. FAILS when the real code accepts an ill-formed dictionary.

import (
	"fmt"
	"math/big"
	"strings"
	"testing"
)

func rainvcInfo(pieceLen int64, nPieces int, lengths []int64) []byte {
	var b strings.Builder
	b.WriteString("d5:filesl")
	for i, l := range lengths {
		fmt.Fprintf(&b, "d6:lengthi%de4:pathl1:%cee", l, 'a'+rune(i))
	}
	fmt.Fprintf(&b, "e4:name1:x12:piece lengthi%de6:pieces%d:%se", pieceLen, nPieces*20, strings.Repeat("h", nPieces*20))
	return []byte(b.String())
}

func TestRainvcReplay(t *testing.T) {
	cases := [][]int64{
		{16385, -1},                 // negative padding-style entry: sum 16384 = one piece
		{1 << 62, 1 << 62, 1 << 62, 1 << 62, 5}, // wraps around to 5
		{-16384, 32768},
	}
	for _, lens := range cases {
		info, err := NewInfo(rainvcInfo(16384, 1, lens), true, true)
		if err != nil {
			continue // rejected: fine
		}
		sum := new(big.Int)
		for _, f := range info.Files {
			if f.Length < 0 {
				t.Fatalf("violation reproduced: NewInfo accepted lengths %v: file %q has negative length %d", lens, f.Path, f.Length)
			}
			sum.Add(sum, big.NewInt(f.Length))
		}
		if sum.Cmp(big.NewInt(info.Length)) != 0 {
			t.Fatalf("violation reproduced: NewInfo accepted lengths %v: Info.Length=%d but the files sum to %s", lens, info.Length, sum)
		}
	}
}
