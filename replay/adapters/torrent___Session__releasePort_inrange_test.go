// rainvc:pkg torrent
package torrent

// Replay adapter for (*Session).releasePort#inrange: only ports of the configured range enter
// the pool. History: a torrent is added, the session is restarted with a different port
// range (the torrent keeps its port), the torrent is removed.
// FAILS when the real code violates the clause.

import (
	"os"
	"path/filepath"
	"testing"
)

func TestRainvcReplay(t *testing.T) {
	tmp := t.TempDir()
	cfg := DefaultConfig
	cfg.Database = filepath.Join(tmp, "session.db")
	cfg.DataDir = tmp
	cfg.DHTEnabled = false
	cfg.PEXEnabled = false
	cfg.RPCEnabled = false
	cfg.Host = "127.0.0.1"
	cfg.PortBegin, cfg.PortEnd = 21000, 21010
	s, err := NewSession(cfg)
	if err != nil {
		t.Fatal(err)
	}
	f, err := os.Open(torrentFile)
	if err != nil {
		t.Fatal(err)
	}
	defer f.Close()
	tor, err := s.AddTorrent(f, &AddTorrentOptions{Stopped: true})
	if err != nil {
		t.Fatal(err)
	}
	id, port := tor.ID(), tor.Port()
	if err := s.Close(); err != nil {
		t.Fatal(err)
	}
	cfg.PortBegin, cfg.PortEnd = 22000, 22010
	s, err = NewSession(cfg)
	if err != nil {
		t.Fatal(err)
	}
	defer s.Close()
	if s.GetTorrent(id) == nil {
		t.Fatal("torrent was not loaded")
	}
	if err := s.RemoveTorrent(id, false); err != nil {
		t.Fatal(err)
	}
	s.mPorts.Lock()
	defer s.mPorts.Unlock()
	for p := range s.availablePorts {
		if p < int(cfg.PortBegin) || p >= int(cfg.PortEnd) {
			t.Fatalf("violation reproduced: the port pool of a session configured for %d..%d holds port %d (released by a removed torrent that was loaded with port %d): a new torrent may listen outside the configured range", cfg.PortBegin, cfg.PortEnd-1, p, port)
		}
	}
}
