// rainvc:pkg internal/addrlist
package addrlist

// Replay adapter for (*AddrList).Push#indexed: after every Push each entry of the
// time-ordered slice records its own position (Pop relies on it to clear the right slot).
// FAILS when the real code violates the clause.

import (
	"net"
	"testing"
	"time"

	"github.com/cenkalti/rain/v2/internal/peersource"
)

func TestRainvcReplay(t *testing.T) {
	ip := net.IPv4(10, 0, 0, 1)
	d := New(100, nil, 6881, &ip)
	addr := func(i int) *net.TCPAddr { return &net.TCPAddr{IP: net.IPv4(8, byte(i), byte(i*7), byte(i*13)), Port: 1000 + i} }
	check := func(ev string) {
		for i, p := range d.peerByTime {
			if p != nil && p.index != i {
				t.Fatalf("violation reproduced: after %s the entry at position %d records index %d", ev, i, p.index)
			}
		}
	}
	for round := 0; round < 4; round++ {
		var batch []*net.TCPAddr
		for i := 1; i <= 6; i++ {
			batch = append(batch, addr(i))
		}
		d.Push(batch, peersource.Tracker)
		check("push of six addresses")
		time.Sleep(2 * time.Millisecond)
		// re-announce of some known addresses: they get a newer timestamp in their old slot
		d.Push([]*net.TCPAddr{addr(2), addr(4)}, peersource.DHT)
		check("re-announce of known addresses")
		time.Sleep(2 * time.Millisecond)
		d.Pop()
		d.Push([]*net.TCPAddr{addr(1)}, peersource.PEX)
		check("push after pop")
	}
}
