// rainvc:pkg internal/piececache
package piececache

// Replay adapter for (*Cache).updateAccessTime#site.armed: a value that was too large to be cached
// has no timer; a second reader of the same key must not reset it. Configuration: read cache
// smaller than one block (size 0 switches the cache off); two readers ask for the same block.
// FAILS when the real code violates the clause.

import (
	"testing"
	"time"
)

func TestRainvcReplay(t *testing.T) {
	c := New(0, time.Minute, 1)
	defer c.Close()
	ld := func() ([]byte, error) { return []byte("data"), nil }
	defer func() {
		if r := recover(); r != nil {
			t.Fatalf("violation reproduced: with a read cache smaller than the block, the second reader of a key panics: %v", r)
		}
	}()
	i1 := c.getItem("k")
	i2 := c.getItem("k")
	if _, err := c.getValue(i1, ld); err != nil {
		t.Fatal(err)
	}
	if _, err := c.getValue(i2, ld); err != nil {
		t.Fatal(err)
	}
}
