// rainvc:pkg internal/btconn
package btconn

// Replay adapter for btconn.Dial#truthful: a connection that is not an MSE stream is reported
// with cipher 0. The remote answers the encrypted handshake up to the cipher selection (RC4) and
// then drops the connection; encryption is not forced, so Dial connects again in plaintext.
// FAILS when the real code violates the clause.

import (
	"io"
	"net"
	"testing"
	"time"

	"github.com/cenkalti/rain/v2/internal/mse"
)

type zzCutConn struct {
	net.Conn
	writes int
}

func (c *zzCutConn) Write(p []byte) (int, error) {
	c.writes++
	if c.writes == 2 {
		c.Conn.Write(p[:12])
		c.Conn.Close()
		return 12, io.ErrClosedPipe
	} // step 4 cut after VC+crypto_select
	return c.Conn.Write(p)
}
func TestRainvcReplay(t *testing.T) {
	l, err := net.Listen("tcp", "127.0.0.1:0")
	if err != nil {
		t.Fatal(err)
	}
	defer l.Close()
	ih, remoteID, ourID := [20]byte{1}, [20]byte{2}, [20]byte{3}
	go func() {
		c, err := l.Accept()
		if err != nil {
			return
		}
		c.SetDeadline(time.Now().Add(5 * time.Second))
		_ = mse.NewStream(&zzCutConn{Conn: c}).HandshakeIncoming(
			func([20]byte) []byte { return ih[:] }, func(mse.CryptoMethod) mse.CryptoMethod { return mse.RC4 })
		c.Close()
		c, err = l.Accept()
		if err != nil {
			return
		} // plaintext retry
		c.SetDeadline(time.Now().Add(5 * time.Second))
		hs := make([]byte, 68)
		if _, err := io.ReadFull(c, hs); err != nil || string(hs[1:20]) != "BitTorrent protocol" {
			c.Close()
			return
		}
		writeHandshake(c, ih, remoteID, [8]byte{})
		time.Sleep(300 * time.Millisecond)
		c.Close()
	}()
	conn, cipher, _, _, err := Dial(l.Addr(), 2*time.Second, 5*time.Second, true, false, [8]byte{}, ih, ourID, make(chan struct{}))
	if err != nil {
		t.Fatal(err)
	}
	defer conn.Close()
	if _, enc := conn.(*mse.Conn); enc {
		t.Fatal("expected the plaintext retry connection")
	}
	if cipher != 0 {
		t.Errorf("violation reproduced: plaintext connection reported with cipher %v (EncryptedStream=%v)", cipher, cipher == mse.RC4)
	}
}
