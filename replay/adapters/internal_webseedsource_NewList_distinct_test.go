// rainvc:pkg internal/webseedsource
package webseedsource

// Replay adapter for webseedsource.NewList#distinct: the sources of a torrent have pairwise
// different URLs. The torrent attributes results, errors and corrupt pieces to "the source with
// this URL": with a url-list that names one URL twice, the failure of the second downloader is
// charged to the first source, and the second keeps a dead downloader that reserves its piece
// range for ever.
// FAILS when the real code violates the clause.

import "testing"

func TestRainvcReplay(t *testing.T) {
	l := NewList([]string{"http://seed.example/f", "http://other.example/f", "http://seed.example/f"})
	for i := range l {
		for j := i + 1; j < len(l); j++ {
			if l[i].URL == l[j].URL {
				t.Fatalf("violation reproduced: sources %d and %d of the torrent both have the URL %s", i, j, l[i].URL)
			}
		}
	}
}
