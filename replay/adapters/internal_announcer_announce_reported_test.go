// rainvc:pkg internal/announcer
package announcer

// Replay adapter for announce#reported: an announce that is aborted from elsewhere (the
// tracker returns context.Canceled although the announcer's own context is alive: another
// torrent cancelled the connection they share) is reported and retried.
// FAILS when the real code violates the clause.

import (
	"context"
	"net"
	"sync/atomic"
	"testing"
	"time"

	"github.com/cenkalti/rain/v2/internal/logger"
	"github.com/cenkalti/rain/v2/internal/tracker"
)

type rainvcTracker struct{ calls atomic.Int32 }

func (z *rainvcTracker) URL() string { return "udp://x:1/a" }
func (z *rainvcTracker) Announce(context.Context, tracker.AnnounceRequest) (*tracker.AnnounceResponse, error) {
	z.calls.Add(1)
	return nil, context.Canceled
}

func TestRainvcReplay(t *testing.T) {
	trk := &rainvcTracker{}
	an := NewPeriodicalAnnouncer(trk, 50, 50*time.Millisecond, func() tracker.Torrent { return tracker.Torrent{} }, make(chan struct{}), make(chan []*net.TCPAddr), logger.New("t"))
	go an.Run()
	defer an.Close()
	time.Sleep(500 * time.Millisecond)
	st := an.Stats()
	if st.Status == Contacting && st.Error == nil {
		t.Fatalf("violation reproduced: the announce was aborted from elsewhere (context.Canceled with the announcer's context alive) and was never reported: the announcer is still %v after %d call, no retry is scheduled", st.Status, trk.calls.Load())
	}
}
