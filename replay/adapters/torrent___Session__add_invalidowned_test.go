// rainvc:pkg torrent
// Replay adapter for (*Session).add#invalidowned and (*Session).loadExistingTorrent#portfree: a
// record that could not be loaded keeps its id (a new torrent cannot take it and later lose its
// record to CleanDatabase) and its port is not shared (the record is not loaded onto a port that
// was handed out in the meantime).
// FAILS when the real code violates the clause.
package torrent

import (
	"bytes"
	"crypto/sha1"
	"github.com/cenkalti/rain/v2/internal/cachedpiece"
	"github.com/cenkalti/rain/v2/internal/fast"
	"github.com/cenkalti/rain/v2/internal/metainfo"
	"github.com/cenkalti/rain/v2/internal/piece"
	"github.com/cenkalti/rain/v2/internal/piececache"
	"github.com/cenkalti/rain/v2/internal/resumer/boltdbresumer"
	"github.com/zeebo/bencode"
	"net"
	"os"
	"os/exec"
	"path/filepath"
	"strconv"
	"strings"
	"testing"
	"time"
)

func zzCfg(t *testing.T) Config {
	tmp := t.TempDir()
	cfg := DefaultConfig
	cfg.Database = filepath.Join(tmp, "session.db")
	cfg.DataDir = tmp
	cfg.DHTEnabled, cfg.PEXEnabled, cfg.RPCEnabled = false, false, false
	cfg.Host = "127.0.0.1"
	cfg.TrackerStopTimeout = 50 * time.Millisecond
	cfg.PortBegin, cfg.PortEnd = 41000, 41010
	return cfg
}
func zzOpen(t *testing.T, cfg Config) *Session {
	s, err := NewSession(cfg)
	if err != nil {
		t.Fatal(err)
	}
	return s
}
func zzClose(s *Session) { defer func() { recover(); time.Sleep(200 * time.Millisecond) }(); s.Close() }
func zzFreePort(t *testing.T) int {
	l, _ := net.Listen("tcp", "127.0.0.1:0")
	defer l.Close()
	return l.Addr().(*net.TCPAddr).Port
}
func zzSampleInfo(t *testing.T) *metainfo.MetaInfo {
	f, _ := os.Open(torrentFile)
	defer f.Close()
	mi, err := metainfo.New(f)
	if err != nil {
		t.Fatal(err)
	}
	return mi
}
func zzURLs(t *Torrent) (r []string) {
	for _, tr := range t.torrent.trackers {
		r = append(r, tr.URL())
	}
	return
}

// runs fn in a child process (the same test re-executed); reports a Go panic in the child
func zzChild(t *testing.T, name string, fn func()) (string, bool) {
	if os.Getenv("ZZ_CHILD") == name {
		fn()
		os.Exit(0)
	}
	cmd := exec.Command(os.Args[0], "-test.run", "^"+t.Name()+"$")
	cmd.Env = append(os.Environ(), "ZZ_CHILD="+name)
	out, _ := cmd.CombinedOutput()
	s := string(out)
	if i := strings.Index(s, "panic:"); i >= 0 {
		e := i + 200
		if e > len(s) {
			e = len(s)
		}
		return s[i:e], true
	}
	return "", false
}

var _ = []any{bytes.Equal, sha1.Sum, net.Listen, exec.Command, strconv.Itoa, strings.Split, cachedpiece.New, fast.GenerateFastSet, piece.BlockSize, piececache.New, boltdbresumer.LatestVersion, bencode.EncodeBytes, zzChild, zzURLs, zzSampleInfo, zzFreePort}

func TestRainvcReplay(t *testing.T) {
	t.Run("id", zzID)
	t.Run("port", zzPort)
}

func zzID(t *testing.T) {
	cfg := zzCfg(t)
	s := zzOpen(t, cfg)
	f, _ := os.Open(torrentFile)
	_, err := s.AddTorrent(f, &AddTorrentOptions{Stopped: true, ID: "x"})
	f.Close()
	if err != nil {
		t.Fatal(err)
	}
	zzClose(s)
	cfg.MaxPieces = 1 // record x is now invalid
	s = zzOpen(t, cfg)
	defer zzClose(s)
	if len(s.ListTorrents()) != 0 {
		t.Fatal("precondition")
	}
	tor, err := s.AddURI(torrentMagnetLink, &AddTorrentOptions{Stopped: true, ID: "x"})
	if err != nil {
		return /* id refused: fine */
	}
	if err := s.CleanDatabase(); err != nil {
		t.Fatal(err)
	}
	if _, err := s.resumer.Read(tor.ID()); err != nil {
		t.Errorf("violation reproduced: live torrent %q has no resume record after CleanDatabase: %v", tor.ID(), err)
	}
	func() {
		defer func() {
			if r := recover(); r != nil {
				t.Errorf("violation reproduced: updateStats panicked: %v", r)
			}
		}()
		s.updateStats()
	}()
}
func zzPort(t *testing.T) {
	cfg := zzCfg(t)
	cfg.PortBegin, cfg.PortEnd = 41000, 41001
	s := zzOpen(t, cfg)
	f, _ := os.Open(torrentFile)
	_, err := s.AddTorrent(f, &AddTorrentOptions{Stopped: true, ID: "x"})
	f.Close()
	if err != nil {
		t.Fatal(err)
	}
	zzClose(s)
	cfg2 := cfg
	cfg2.MaxPieces = 1
	s = zzOpen(t, cfg2)
	if _, err = s.AddURI(torrentMagnetLink, &AddTorrentOptions{Stopped: true, ID: "y"}); err != nil {
		t.Fatal(err)
	}
	zzClose(s)
	s = zzOpen(t, cfg)
	defer zzClose(s)
	ports := map[int]string{}
	for _, tor := range s.ListTorrents() {
		if o, ok := ports[tor.Port()]; ok {
			t.Errorf("violation reproduced: torrents %s and %s share port %d", o, tor.ID(), tor.Port())
		}
		ports[tor.Port()] = tor.ID()
	}
}
