// rainvc:pkg torrent
package torrent

// Replay adapter for (*Session).add#reserved: an id given by the user is checked and reserved in one
// step. History: eight concurrent AddTorrent calls with the same id.
// FAILS when the real code violates the clause.

import (
	"bytes"
	"fmt"
	"net"
	"net/http"
	"net/http/httptest"
	"os"
	"path/filepath"
	"runtime"
	"strconv"
	"strings"
	"sync"
	"sync/atomic"
	"testing"
	"time"

	"github.com/cenkalti/rain/v2/internal/piecewriter"
	"github.com/cenkalti/rain/v2/internal/storage"
	"github.com/cenkalti/rain/v2/internal/storage/filestorage"
)

var _ = []any{bytes.Equal, fmt.Sprint, net.Listen, http.NewRequest, httptest.NewServer, os.Getenv, filepath.Join, runtime.Stack, strconv.Itoa, strings.Split, sync.NewCond, atomic.AddInt64, time.Now, piecewriter.New}

func zzMust(t *testing.T, err error) {
	t.Helper()
	if err != nil {
		t.Fatal(err)
	}
}

func zzTorrentBytes(t *testing.T) []byte {
	t.Helper()
	data, err := os.ReadFile(torrentFile)
	zzMust(t, err)
	return data
}

func zzAdd(t *testing.T, s *Session, opt *AddTorrentOptions) *Torrent {
	t.Helper()
	tor, err := s.AddTorrent(bytes.NewReader(zzTorrentBytes(t)), opt)
	zzMust(t, err)
	return tor
}

func zzWaitStatus(t *testing.T, tor *Torrent, want ...Status) Stats {
	t.Helper()
	deadline := time.Now().Add(10 * time.Second)
	for {
		st := tor.Stats()
		for _, w := range want {
			if st.Status == w {
				return st
			}
		}
		if time.Now().After(deadline) {
			t.Fatalf("status is %v (err %v), want %v", st.Status, st.Error, want)
		}
		time.Sleep(5 * time.Millisecond)
	}
}

func zzOpenSession(t *testing.T, dir string, mod func(*Config)) *Session {
	t.Helper()
	cfg := DefaultConfig
	cfg.Database = filepath.Join(dir, "session.db")
	cfg.DataDir = dir
	cfg.DHTEnabled, cfg.PEXEnabled, cfg.RPCEnabled = false, false, false
	cfg.Host = "127.0.0.1"
	if mod != nil {
		mod(&cfg)
	}
	s, err := NewSession(cfg)
	zzMust(t, err)
	t.Cleanup(func() { _ = s.Close() })
	return s
}

// complete, correct payload of the sample torrent under dir/sample_torrent (fixture zero.bin = 10 MiB zeros)

func zzFillData(t *testing.T, dir string) {
	t.Helper()
	zzMust(t, os.MkdirAll(dir, 0o750))
	zzMust(t, CopyDir(filepath.Join(torrentDataDir, torrentName), filepath.Join(dir, torrentName)))
	zzMust(t, os.Truncate(filepath.Join(dir, torrentName, "data", "zero.bin"), 10485760))
}

// real piece writer for piece 1 (1 MiB of zeros: a zeroed pool buffer has the right hash), as
// handlePieceMessage starts it when the last block of a piece has arrived.

func zzStartWrite(s *Session, tt *torrent) {
	pi := &tt.pieces[1]
	pi.Writing = true
	pw := piecewriter.New(pi, "peer", tt.piecePool.Get(int(pi.Length)))
	go pw.Run(tt.pieceWriterResultC, tt.doneC, s.metrics.WritesPerSecond, s.metrics.SpeedWrite, s.semWrite)
}

// the same while every write slot of the session (ParallelWrites, default 1) is taken, as by
// another torrent that is writing. release() frees the slots: the write proceeds.

func zzInflightWrite(t *testing.T, s *Session, tt *torrent) (release func()) {
	t.Helper()
	n := int(s.config.ParallelWrites)
	for i := 0; i < n; i++ {
		s.semWrite.Wait()
	}
	zzStartWrite(s, tt)
	for deadline := time.Now().Add(5 * time.Second); s.semWrite.Waiting() == 0; time.Sleep(time.Millisecond) {
		if time.Now().After(deadline) {
			t.Fatal("piece writer did not reach the semaphore")
		}
	}
	return func() {
		for i := 0; i < n; i++ {
			s.semWrite.Signal()
		}
	}
}

// zzProvider: the real file storage (dir/<torrent id>) with three knobs: a write that returns
// late (data on disk, call not returned), an Open that blocks, slow reads.
type zzProvider struct {
	dir                string
	mu                 sync.Mutex
	writeGate, inWrite chan struct{}
	openGate, inOpen   chan struct{}
	readDelay          time.Duration
}

func (p *zzProvider) armWrite() {
	p.mu.Lock()
	p.writeGate, p.inWrite = make(chan struct{}), make(chan struct{}, 1)
	p.mu.Unlock()
}
func (p *zzProvider) releaseWrite() {
	p.mu.Lock()
	g := p.writeGate
	p.writeGate = nil
	p.mu.Unlock()
	close(g)
}
func (p *zzProvider) armOpen() {
	p.mu.Lock()
	p.openGate, p.inOpen = make(chan struct{}), make(chan struct{}, 1)
	p.mu.Unlock()
}
func (p *zzProvider) releaseOpen() {
	p.mu.Lock()
	g := p.openGate
	p.openGate = nil
	p.mu.Unlock()
	close(g)
}
func (p *zzProvider) setReadDelay(d time.Duration) { p.mu.Lock(); p.readDelay = d; p.mu.Unlock() }

func (p *zzProvider) GetStorage(id string) (storage.Storage, error) {
	fs, err := filestorage.New(filepath.Join(p.dir, id), 0o750)
	if err != nil {
		return nil, err
	}
	return &zzStorage{p: p, Storage: fs}, nil
}

type zzStorage struct {
	p *zzProvider
	storage.Storage
}

func (s *zzStorage) Open(name string, size int64) (storage.File, bool, error) {
	s.p.mu.Lock()
	g, in := s.p.openGate, s.p.inOpen
	s.p.mu.Unlock()
	if g != nil {
		select {
		case in <- struct{}{}:
		default:
		}
		<-g
	}
	f, ex, err := s.Storage.Open(name, size)
	if err != nil {
		return nil, ex, err
	}
	return &zzFile{p: s.p, File: f}, ex, nil
}

type zzFile struct {
	p *zzProvider
	storage.File
}

func (f *zzFile) ReadAt(b []byte, off int64) (int, error) {
	f.p.mu.Lock()
	d := f.p.readDelay
	f.p.mu.Unlock()
	time.Sleep(d)
	return f.File.ReadAt(b, off)
}

func (f *zzFile) WriteAt(b []byte, off int64) (int, error) {
	n, err := f.File.WriteAt(b, off)
	f.p.mu.Lock()
	g, in := f.p.writeGate, f.p.inWrite
	f.p.mu.Unlock()
	if g != nil {
		select {
		case in <- struct{}{}:
		default:
		}
		<-g
	}
	return n, err
}

func zzSessionWithStorage(t *testing.T) (*Session, *zzProvider) {
	t.Helper()
	tmp := t.TempDir()
	p := &zzProvider{dir: tmp}
	return zzOpenSession(t, tmp, func(c *Config) { c.CustomStorage = p }), p
}

func TestRainvcReplay(t *testing.T) {
	s := newTestSession(t)
	total := int(s.config.PortEnd - s.config.PortBegin)
	data := zzTorrentBytes(t)
	var wg sync.WaitGroup
	var mu sync.Mutex
	var added []*Torrent
	for i := 0; i < 8; i++ {
		wg.Add(1)
		go func() {
			defer wg.Done()
			if tor, err := s.AddTorrent(bytes.NewReader(data), &AddTorrentOptions{ID: "same", Stopped: true}); err == nil {
				mu.Lock()
				added = append(added, tor)
				mu.Unlock()
			}
		}()
	}
	wg.Wait()
	s.mPorts.RLock()
	free := len(s.availablePorts)
	s.mPorts.RUnlock()
	listed := len(s.ListTorrents())
	if len(added) != 1 || listed != 1 || free != total-listed {
		t.Errorf("violation reproduced: %d adds with id %q succeeded (want 1); %d listed; %d of %d ports free (want %d)", len(added), "same", listed, free, total, total-listed)
	}
	for _, tor := range added {
		if s.GetTorrent("same") != tor {
			tor.torrent.Close() // leaked otherwise
		}
	}
}
