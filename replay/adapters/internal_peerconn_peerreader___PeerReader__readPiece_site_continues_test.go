// rainvc:pkg internal/peerconn/peerreader
// Replay adapter for internal/peerconn/peerreader.(*PeerReader).readPiece#site.continues: every read of a piece block continues where the bytes received so far end
// (the demonstration of seeded change C11_d). FAILS when the real code violates the clause.
package peerreader

import (
	"bytes"
	"encoding/binary"
	"io"
	"net"
	"sync"
	"testing"
	"time"

	"github.com/cenkalti/rain/v2/internal/logger"
	"github.com/cenkalti/rain/v2/internal/peerprotocol"
)

// seedTimeoutError is what a net.Conn returns from Read when the read deadline passes.
type seedTimeoutError struct{}

func (seedTimeoutError) Error() string   { return "i/o timeout" }
func (seedTimeoutError) Timeout() bool   { return true }
func (seedTimeoutError) Temporary() bool { return true }

// seedStep is either a fragment of the stream or a read deadline that passes before the next
// fragment arrives.
type seedStep struct {
	data    []byte
	timeout bool
}

// seedConn is a net.Conn that delivers a byte stream in the scripted fragments. A Read never
// returns bytes of more than one fragment. At the end of the script Read returns io.EOF.
type seedConn struct {
	mu    sync.Mutex
	steps []seedStep
}

func (c *seedConn) Read(p []byte) (int, error) {
	c.mu.Lock()
	defer c.mu.Unlock()
	for len(c.steps) > 0 && !c.steps[0].timeout && len(c.steps[0].data) == 0 {
		c.steps = c.steps[1:]
	}
	if len(c.steps) == 0 {
		return 0, io.EOF
	}
	if c.steps[0].timeout {
		c.steps = c.steps[1:]
		return 0, seedTimeoutError{}
	}
	n := copy(p, c.steps[0].data)
	c.steps[0].data = c.steps[0].data[n:]
	return n, nil
}

func (c *seedConn) Write(p []byte) (int, error)      { return len(p), nil }
func (c *seedConn) Close() error                     { return nil }
func (c *seedConn) LocalAddr() net.Addr              { return &net.TCPAddr{IP: net.IPv4(127, 0, 0, 1), Port: 1} }
func (c *seedConn) RemoteAddr() net.Addr             { return &net.TCPAddr{IP: net.IPv4(127, 0, 0, 1), Port: 2} }
func (c *seedConn) SetDeadline(time.Time) error      { return nil }
func (c *seedConn) SetReadDeadline(time.Time) error  { return nil }
func (c *seedConn) SetWriteDeadline(time.Time) error { return nil }

func seedBlock(n int) []byte {
	b := make([]byte, n)
	for i := range b {
		b[i] = byte(i*13 + i>>8 + 1)
	}
	return b
}

// seedStream is the wire encoding of a "piece" message followed by a "have" message, exactly as
// the peer writer emits them.
func seedStream(index, begin uint32, block []byte, have uint32) []byte {
	var b bytes.Buffer
	_ = binary.Write(&b, binary.BigEndian, uint32(1+8+len(block)))
	b.WriteByte(byte(peerprotocol.Piece))
	_ = binary.Write(&b, binary.BigEndian, index)
	_ = binary.Write(&b, binary.BigEndian, begin)
	b.Write(block)
	_ = binary.Write(&b, binary.BigEndian, uint32(1+4))
	b.WriteByte(byte(peerprotocol.Have))
	_ = binary.Write(&b, binary.BigEndian, have)
	return b.Bytes()
}

// seedFragment cuts the stream at the given offsets and puts a passing read deadline at every
// cut that is listed in slowAt.
func seedFragment(stream []byte, cuts []int, slowAt map[int]bool) []seedStep {
	var steps []seedStep
	prev := 0
	for _, c := range append(append([]int{}, cuts...), len(stream)) {
		steps = append(steps, seedStep{data: stream[prev:c]})
		if slowAt[c] {
			steps = append(steps, seedStep{timeout: true})
		}
		prev = c
	}
	return steps
}

func seedRunReader(t *testing.T, name string, steps []seedStep, block []byte) {
	t.Helper()
	r := New(&seedConn{steps: steps}, logger.New("seed"), 50*time.Millisecond, 1<<20, nil)
	go r.Run()
	defer func() {
		r.Stop()
		<-r.Done()
	}()

	recv := func() any {
		t.Helper()
		select {
		case m := <-r.Messages():
			return m
		case <-r.Done():
			select {
			case m := <-r.Messages():
				return m
			default:
			}
			t.Fatalf("%s: reader gave up on a well-formed stream", name)
		case <-time.After(10 * time.Second):
			t.Fatalf("%s: timed out waiting for a message", name)
		}
		return nil
	}

	pm, ok := recv().(Piece)
	if !ok {
		t.Fatalf("%s: first message is not the piece message", name)
	}
	if pm.Index != 7 || pm.Begin != 32768 {
		t.Fatalf("%s: piece decoded as index=%d begin=%d", name, pm.Index, pm.Begin)
	}
	if !bytes.Equal(pm.Buffer.Data, block) {
		i := 0
		for i < len(block) && i < len(pm.Buffer.Data) && pm.Buffer.Data[i] == block[i] {
			i++
		}
		t.Fatalf("%s: decoded block (%d bytes) differs from the block sent (%d bytes) at offset %d", name, len(pm.Buffer.Data), len(block), i)
	}
	pm.Buffer.Release()

	hm, ok := recv().(peerprotocol.HaveMessage)
	if !ok || hm.Index != 0x0a0b0c0d {
		t.Fatalf("%s: message after the piece decoded as %#v", name, hm)
	}
}

// The reader must decode a "piece" message to the block that was sent however the stream is cut
// into reads, also when the peer is slow and read deadlines pass between the fragments of the
// block (the reader keeps receiving as long as every wait brought some bytes).
func TestRainvcReplay(t *testing.T) {
	block := seedBlock(16384)
	stream := seedStream(7, 32768, block, 0x0a0b0c0d)
	const hdr = 4 + 1 + 8 // offset of the block in the stream

	cases := []struct {
		name string
		cuts []int
		slow []int
	}{
		{"one read", nil, nil},
		{"cut inside header", []int{2, 5, 9}, nil},
		{"cut after header", []int{hdr}, nil},
		{"many fragments", []int{1, hdr + 1, hdr + 1000, hdr + 1001, hdr + 9000, hdr + 16383, hdr + 16384, hdr + 16386}, nil},
		{"one deadline passes", []int{hdr + 5000}, []int{hdr + 5000}},
		{"one deadline passes late", []int{hdr + 100, hdr + 16000}, []int{hdr + 16000}},
		{"two deadlines pass", []int{hdr + 5000, hdr + 10000}, []int{hdr + 5000, hdr + 10000}},
		{"two deadlines pass, growing fragments", []int{hdr + 100, hdr + 3000}, []int{hdr + 100, hdr + 3000}},
		{"three deadlines pass", []int{hdr + 6000, hdr + 8000, hdr + 16000}, []int{hdr + 6000, hdr + 8000, hdr + 16000}},
	}
	for _, tc := range cases {
		slowAt := make(map[int]bool)
		for _, s := range tc.slow {
			slowAt[s] = true
		}
		seedRunReader(t, tc.name, seedFragment(stream, tc.cuts, slowAt), block)
	}
}
