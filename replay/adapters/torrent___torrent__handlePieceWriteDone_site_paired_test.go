// rainvc:pkg torrent
package torrent

// Replay adapter for (*torrent).handlePieceWriteDone#site.paired: the web-seed slot counter is
// decremented only where an open downloader is closed. History: the web seed delivers the
// last piece of its range (its downloader is closed and the slot freed), then the piece
// writer reports that piece as corrupt.
// FAILS when the real code violates the clause.

import (
	"os"
	"testing"

	"github.com/cenkalti/rain/v2/internal/bufferpool"
	"github.com/cenkalti/rain/v2/internal/piece"
	"github.com/cenkalti/rain/v2/internal/piecewriter"
	"github.com/cenkalti/rain/v2/internal/urldownloader"
	"github.com/cenkalti/rain/v2/internal/webseedsource"
)

func TestRainvcReplay(t *testing.T) {
	s := newTestSession(t)
	f, err := os.Open(torrentFile)
	if err != nil {
		t.Fatal(err)
	}
	defer f.Close()
	tor, err := s.AddTorrent(f, &AddTorrentOptions{Stopped: true})
	if err != nil {
		t.Fatal(err)
	}
	tt := tor.torrent
	tt.webseedSources = webseedsource.NewList([]string{"http://seed.invalid/data"})
	tt.webseedActiveDownloads = 0 // the range has ended: no source has a downloader
	ud := urldownloader.New("http://seed.invalid/data", 0, 1, nil)
	pw := piecewriter.New(&piece.Piece{Index: 0}, ud, bufferpool.New(16).Get(16))
	pw.HashOK = false
	tt.handlePieceWriteDone(pw)
	open := 0
	for _, src := range tt.webseedSources {
		if src.Downloader != nil {
			open++
		}
	}
	if tt.webseedActiveDownloads != open {
		t.Fatalf("violation reproduced: %d web-seed downloaders are open and the slot counter is %d after a corrupt piece from a web seed whose range had ended", open, tt.webseedActiveDownloads)
	}
}
