// rainvc:pkg internal/peerconn/peerwriter
// Replay adapter for internal/peerconn/peerwriter.(*PeerWriter).cancelRequest#site.piece: only piece messages, which were counted, are taken out by a cancel
// (the demonstration of seeded change C17_f). FAILS when the real code violates the clause.
package peerwriter

import (
	"bytes"
	"net"
	"testing"
	"time"

	"github.com/cenkalti/rain/v2/internal/logger"
	"github.com/cenkalti/rain/v2/internal/peerprotocol"
)

// A Fast Extension peer fills its upload queue, gets its surplus requests
// rejected, cancels the rejected requests and then asks again. The number of
// piece messages waiting in the write queue must never exceed the configured
// maximum and the counter must match the content of the queue.
func TestRainvcReplay(t *testing.T) {
	const maxQueued = 2

	server, client := net.Pipe()
	w := New(server, logger.New("seed"), maxQueued, true, nil)
	go w.Run()

	// Park the socket writer inside conn.Write: net.Pipe writes block until all the
	// bytes are consumed, so after reading a single byte of the first message the
	// writer is known to be stuck and everything sent afterwards stays in the queue.
	w.SendMessage(peerprotocol.HaveMessage{Index: 1})
	_ = client.SetReadDeadline(time.Now().Add(10 * time.Second))
	one := make([]byte, 1)
	if _, err := client.Read(one); err != nil {
		t.Fatal(err)
	}

	data := bytes.NewReader(make([]byte, 64))
	req := func(i uint32) peerprotocol.RequestMessage {
		return peerprotocol.RequestMessage{Index: 0, Begin: i * 16, Length: 16}
	}

	// Two requests fill the queue, the next two are answered with a reject.
	for i := uint32(0); i < 4; i++ {
		w.SendPiece(req(i), data)
	}
	// Peer cancels the two requests that have been rejected.
	w.CancelRequest(peerprotocol.CancelMessage{RequestMessage: req(2)})
	w.CancelRequest(peerprotocol.CancelMessage{RequestMessage: req(3)})
	// Peer cancels requests that it has never sent.
	w.CancelRequest(peerprotocol.CancelMessage{RequestMessage: req(40)})
	// Queue is still full, these must not be queued as piece messages.
	for i := uint32(10); i < 14; i++ {
		w.SendPiece(req(i), data)
	}

	w.Stop()
	<-w.Done()
	client.Close()

	pieces := 0
	for e := w.writeQueue.Front(); e != nil; e = e.Next() {
		if _, ok := e.Value.(Piece); ok {
			pieces++
		}
	}
	if pieces > maxQueued {
		t.Errorf("%d piece messages are queued for the peer, limit is %d", pieces, maxQueued)
	}
	if w.currentQueuedRequests != pieces {
		t.Errorf("queued request counter is %d but %d piece messages are queued", w.currentQueuedRequests, pieces)
	}
	if w.currentQueuedRequests < 0 || w.currentQueuedRequests > maxQueued {
		t.Errorf("queued request counter out of range: %d (limit %d)", w.currentQueuedRequests, maxQueued)
	}
}
