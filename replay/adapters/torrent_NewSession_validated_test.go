// rainvc:pkg torrent
package torrent

// Replay adapter for (*Config).validate#runnable / NewSession#validated: a configuration that
// NewSession accepts has none of the values that make the client panic or hang later (a ticker
// with period 0, a division by the read cache block size, a semaphore without a slot, a negative
// list length).
// FAILS when the real code violates the clause (the last case kills the test binary on the
// defective code: time.NewTicker panics in a background goroutine).

import (
	"path/filepath"
	"testing"
	"time"
)

func TestRainvcReplay(t *testing.T) {
	cases := []struct {
		name string
		set  func(c *Config)
		then string
	}{
		{"ReadCacheBlockSize=0", func(c *Config) { c.ReadCacheBlockSize = 0 }, "integer divide by zero on the first block request from any peer"},
		{"WebseedMaxSources=-1", func(c *Config) { c.WebseedMaxSources = -1 }, "slice bounds panic on every AddTorrent"},
		{"AllowedFastSet=-1", func(c *Config) { c.AllowedFastSet = -1 }, "make() panic when a fast-extension peer connects"},
		{"ParallelReads=0", func(c *Config) { c.ParallelReads = 0 }, "no block read ever returns: the peer writers block, then the torrent loop"},
		{"ParallelWrites=0", func(c *Config) { c.ParallelWrites = 0 }, "no piece write ever starts"},
		{"HealthCheckTimeout=0", func(c *Config) { c.HealthCheckTimeout = 0 }, "the health check panics the process for an idle, healthy torrent"},
		{"ResumeWriteInterval=0", func(c *Config) { c.ResumeWriteInterval = 0 }, "time.NewTicker panics in the stats goroutine right after NewSession"},
	}
	for _, tc := range cases {
		tmp := t.TempDir()
		cfg := DefaultConfig
		cfg.Database = filepath.Join(tmp, "session.db")
		cfg.DataDir = tmp
		cfg.DHTEnabled, cfg.PEXEnabled, cfg.RPCEnabled = false, false, false
		cfg.Host = "127.0.0.1"
		cfg.HealthCheckInterval = time.Hour // keep the health check quiet while the session is open
		tc.set(&cfg)
		s, err := NewSession(cfg)
		if err == nil {
			t.Errorf("violation reproduced: NewSession accepts %s; later: %s", tc.name, tc.then)
			time.Sleep(50 * time.Millisecond)
			_ = s.Close()
		}
	}
}
