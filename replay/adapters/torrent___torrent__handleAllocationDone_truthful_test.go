// rainvc:pkg torrent
package torrent

// Replay adapter for (*torrent).handleAllocationDone#truthful: a torrent that had
// completed, was stopped, lost its files and is started again gets a fresh empty bitfield;
// it must not keep reporting Seeding (and must be able to download again).
// FAILS when the real code violates the clause.

import (
	"os"
	"testing"
	"time"

	"github.com/cenkalti/rain/v2/internal/bitfield"
)

func TestRainvcReplay(t *testing.T) {
	s := newTestSession(t)
	f, err := os.Open(torrentFile)
	if err != nil {
		t.Fatal(err)
	}
	defer f.Close()
	tor, err := s.AddTorrent(f, &AddTorrentOptions{Stopped: true})
	if err != nil {
		t.Fatal(err)
	}
	tt := tor.torrent
	// state of a torrent that completed in an earlier run of this session and was stopped
	full := bitfield.New(tt.info.NumPieces)
	for i := uint32(0); i < full.Len(); i++ {
		full.Set(i)
	}
	tt.bitfield = full
	tt.completed = true
	close(tt.completeC)
	// the user deleted the files and starts the torrent again: the allocator finds nothing on disk
	if err := tor.Start(); err != nil {
		t.Fatal(err)
	}
	deadline := time.Now().Add(10 * time.Second)
	for {
		st := tor.Stats()
		if st.Status != Allocating && st.Status != Stopped {
			if st.Status == Seeding && st.Pieces.Have < st.Pieces.Total {
				t.Fatalf("violation reproduced: after its files were deleted and recreated empty the torrent holds %d of %d pieces and reports %v", st.Pieces.Have, st.Pieces.Total, st.Status)
			}
			break
		}
		if time.Now().After(deadline) {
			t.Fatalf("torrent still %v", st.Status)
		}
		time.Sleep(20 * time.Millisecond)
	}
}
