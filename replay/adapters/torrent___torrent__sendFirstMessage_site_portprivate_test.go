// rainvc:pkg torrent
package torrent

// Replay adapter for (*torrent).sendFirstMessage#site.portprivate: a private torrent does not tell
// its peers our DHT port (message id 9), whatever DHT bit the peer advertised.
// FAILS when the real code violates the clause.

import (
	"encoding/binary"
	"io"
	"net"
	"os"
	"testing"
	"time"

	"github.com/cenkalti/rain/v2/internal/peer"
	"github.com/cenkalti/rain/v2/internal/peersource"
)

type rainvcAddrConn3 struct{ net.Conn }

func (c rainvcAddrConn3) RemoteAddr() net.Addr { return &net.TCPAddr{IP: net.IPv4(9, 9, 9, 9), Port: 2} }
func (c rainvcAddrConn3) LocalAddr() net.Addr  { return &net.TCPAddr{IP: net.IPv4(127, 0, 0, 1), Port: 1} }

func TestRainvcReplay(t *testing.T) {
	s := newTestSession(t)
	f, err := os.Open(torrentFile)
	if err != nil {
		t.Fatal(err)
	}
	defer f.Close()
	tor, err := s.AddTorrent(f, &AddTorrentOptions{Stopped: true})
	if err != nil {
		t.Fatal(err)
	}
	tt := tor.torrent
	tt.info.Private = true // the torrent is private
	a, b := net.Pipe()
	defer b.Close()
	var ext [8]byte
	ext[7] |= 0x01 // the peer advertises DHT support
	pe := peer.New(rainvcAddrConn3{a}, peersource.Manual, [20]byte{7}, ext, 0, time.Minute, time.Minute, 10, 1<<20, nil, nil)
	if !pe.DHTEnabled {
		t.Skip("peer does not report DHT support")
	}
	go pe.Run(make(chan peer.Message, 16), make(chan peer.PieceMessage, 16), make(chan *peer.Peer, 1), make(chan *peer.Peer, 1))
	defer pe.Close()
	done := make(chan struct{})
	go func() { defer close(done); tt.sendFirstMessage(pe) }()
	var ids []byte
	for {
		_ = b.SetReadDeadline(time.Now().Add(500 * time.Millisecond))
		var l uint32
		if err := binary.Read(b, binary.BigEndian, &l); err != nil {
			break
		}
		x := make([]byte, l)
		if _, err := io.ReadFull(b, x); err != nil {
			break
		}
		if l > 0 {
			ids = append(ids, x[0])
		}
	}
	<-done
	for _, id := range ids {
		if id == 9 {
			t.Fatalf("violation reproduced: the first messages to a peer of a private torrent (ids %v) include a Port message (id 9): the private swarm is tied into the DHT", ids)
		}
	}
}
