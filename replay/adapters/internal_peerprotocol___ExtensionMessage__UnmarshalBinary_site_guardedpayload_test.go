// rainvc:pkg internal/peerprotocol
package peerprotocol

// Replay adapter for (*ExtensionMessage).UnmarshalBinary#site.guardedpayload: what a peer sends as
// an extension message reaches the bencode decoder only after the guard accepted it. Inputs: an
// extension handshake whose dictionary value is 300000 nested lists (300 KB, far below the
// message size limit), and one that declares a 2 GiB string in 17 bytes.
// FAILS when the real code violates the clause (a stack overflow cannot be recovered: the test
// binary dies, which go test reports as a failure).

import (
	"bytes"
	"runtime"
	"runtime/debug"
	"testing"
)

func TestRainvcReplay(t *testing.T) {
	// 2 GiB string announced in a few bytes: the decoder allocates before it reads
	var before, after runtime.MemStats
	runtime.ReadMemStats(&before)
	var m1 ExtensionMessage
	err := m1.UnmarshalBinary([]byte("\x00d1:a2147483647:"))
	runtime.ReadMemStats(&after)
	if grown := after.TotalAlloc - before.TotalAlloc; grown > 1<<30 {
		t.Fatalf("violation reproduced: a 17-byte extension message made the client allocate %d MiB (error afterwards: %v)", grown>>20, err)
	}
	// deep nesting: one stack frame set per level
	debug.SetMaxStack(64 << 20) // die early instead of eating a gigabyte first
	payload := append([]byte("\x00d1:a"), bytes.Repeat([]byte("l"), 300000)...)
	var m ExtensionMessage
	if err := m.UnmarshalBinary(payload); err == nil {
		t.Fatal("violation reproduced: 300000 nested lists accepted")
	}
}
