// rainvc:pkg torrent
package torrent

// Replay adapter for (*Session).addMagnet#kept: a torrent that has been put into the session
// keeps its port. History: AddURI(magnet) whose start fails after the torrent was inserted (the
// resume database stops accepting writes between the insertion and the start).
// FAILS when the real code violates the clause.

import (
	"path/filepath"
	"testing"
	"time"
)

func TestRainvcReplay(t *testing.T) {
	tmp := t.TempDir()
	cfg := DefaultConfig
	cfg.Database = filepath.Join(tmp, "session.db")
	cfg.DataDir = tmp
	cfg.DHTEnabled = false
	cfg.PEXEnabled = false
	cfg.RPCEnabled = false
	cfg.Host = "127.0.0.1"
	s, err := NewSession(cfg)
	if err != nil {
		t.Fatal(err)
	}
	// Hold the session's torrent map so that AddURI stops right before the insertion, close the
	// database (from now on every write fails), and let it go on: the insertion succeeds, the
	// start (which records started=true) fails.
	s.mTorrents.RLock()
	type res struct {
		tor *Torrent
		err error
	}
	done := make(chan res, 1)
	go func() {
		tor, err := s.AddURI(torrentMagnetLink, nil)
		done <- res{tor, err}
	}()
	time.Sleep(300 * time.Millisecond)
	_ = s.db.Close()
	s.mTorrents.RUnlock()
	r := <-done
	if r.err == nil {
		t.Skip("the start did not fail")
	}
	s.mTorrents.RLock()
	n := len(s.torrents)
	var port int
	for _, tor := range s.torrents {
		port = tor.torrent.port
	}
	s.mTorrents.RUnlock()
	s.mPorts.RLock()
	_, free := s.availablePorts[port]
	s.mPorts.RUnlock()
	if n == 1 && free {
		t.Fatalf("violation reproduced: AddURI failed at the start (%v) after the torrent was put into the session: the session lists the torrent and its port %d is back in the pool of free ports, where the next torrent will take it", r.err, port)
	}
	// The clause held. Shut the session down by hand (Session.Close would write to the database,
	// which was closed on purpose).
	close(s.closeC)
	for _, tor := range s.torrents {
		tor.torrent.Close()
	}
	s.ram.Close()
	s.pieceCache.Close()
	s.trackerManager.Close()
	s.metrics.Close()
	time.Sleep(300 * time.Millisecond)
}
