// rainvc:pkg torrent
package torrent

// Replay adapter for (*torrent).stop#site.trusted: when a re-check of a running torrent is
// requested, the bitfield that is about to be discarded is not written (back) to the resume
// database: a client that exits during the re-check must not trust it on the next start.
// FAILS when the real code violates the clause.

import (
	"os"
	"path/filepath"
	"testing"
	"time"

	cp "github.com/otiai10/copy"
	"go.etcd.io/bbolt"
)

func TestRainvcReplay(t *testing.T) {
	s := newTestSession(t)
	s.config.TrackerStopTimeout = 100 * time.Millisecond
	defer time.Sleep(300 * time.Millisecond) // the stop announcer's watchdog goroutine lives until its timeout
	f, err := os.Open(torrentFile)
	if err != nil {
		t.Fatal(err)
	}
	defer f.Close()
	tor, err := s.AddTorrent(f, &AddTorrentOptions{Stopped: true})
	if err != nil {
		t.Fatal(err)
	}
	dst := filepath.Join(s.config.DataDir, tor.ID(), torrentName)
	if err := os.MkdirAll(filepath.Dir(dst), 0o750); err != nil {
		t.Fatal(err)
	}
	if err := cp.Copy(filepath.Join(torrentDataDir, torrentName), dst); err != nil {
		t.Fatal(err)
	}
	tor.torrent.trackers = nil
	if err := tor.Start(); err != nil {
		t.Fatal(err)
	}
	deadline := time.Now().Add(10 * time.Second)
	for tor.Stats().Status != Seeding {
		if time.Now().After(deadline) {
			t.Fatalf("torrent is %v", tor.Stats().Status)
		}
		time.Sleep(10 * time.Millisecond)
	}
	if err := tor.Verify(); err != nil { // removes the bitfield from the db, then stops and re-checks
		t.Fatal(err)
	}
	tor.Stats() // the verify command has been handled: the torrent was stopped
	var stored []byte
	_ = s.db.View(func(tx *bbolt.Tx) error {
		stored = append(stored, tx.Bucket(torrentsBucket).Bucket([]byte(tor.ID())).Get([]byte("bitfield"))...)
		return nil
	})
	st := tor.Stats()
	if len(stored) != 0 && st.Status != Stopped && st.Pieces.Checked < st.Pieces.Total {
		t.Fatalf("violation reproduced: a re-check was requested and is not finished (%v, %d/%d checked), yet the resume database holds the old bitfield %x again", st.Status, st.Pieces.Checked, st.Pieces.Total, stored)
	}
}
