// rainvc:pkg internal/peerconn/peerwriter
package peerwriter

// Replay adapter for (*PeerWriter).messageWriter#site.rejectfast: a peer that did not negotiate
// the Fast Extension never receives a Reject message (id 16), also for a duplicate request.
// FAILS when the real code violates the clause.

import (
	"bytes"
	"encoding/binary"
	"io"
	"net"
	"testing"
	"time"

	"github.com/cenkalti/rain/v2/internal/logger"
	"github.com/cenkalti/rain/v2/internal/peerprotocol"
)

func TestRainvcReplay(t *testing.T) {
	a, b := net.Pipe()
	defer a.Close()
	defer b.Close()
	w := New(a, logger.New("rainvc"), 10, false, nil) // fast extension NOT enabled
	go w.Run()
	defer w.Stop()
	go func() {
		for range w.Messages() {
		}
	}()
	data := bytes.NewReader(bytes.Repeat([]byte{7}, 32))
	req := peerprotocol.RequestMessage{Index: 0, Begin: 0, Length: 16}
	_ = b.SetReadDeadline(time.Now().Add(10 * time.Second))
	readID := func() byte {
		var l uint32
		if err := binary.Read(b, binary.BigEndian, &l); err != nil {
			t.Fatal(err)
		}
		x := make([]byte, l)
		if _, err := io.ReadFull(b, x); err != nil {
			t.Fatal(err)
		}
		return x[0]
	}
	w.SendPiece(req, data)
	if id := readID(); id != 7 {
		t.Fatalf("first answer has id %d", id)
	}
	w.SendPiece(req, data) // the same request again
	w.SendMessage(peerprotocol.HaveMessage{Index: 1})
	if id := readID(); id == 16 {
		t.Fatalf("violation reproduced: a duplicate request from a peer without the Fast Extension was answered with a Reject message (id 16)")
	}
}
