// rainvc:pkg internal/piece
package piece

// Replay adapter for (*Piece).calculateBlocks#loop1.block (and #site.nopadding):
// every block handed out covers only non-padding bytes of the piece, blocks are
// in ascending order, disjoint, and together cover every non-padding byte.
// FAILS when the real code violates the clause.

import (
	"testing"

	"github.com/cenkalti/rain/v2/internal/filesection"
)

func TestRainvcReplay(t *testing.T) {
	const bs = 4
	lens := []int64{0, 1, 3, 4, 5, 8}
	var layouts [][]filesection.FileSection
	var gen func(cur []filesection.FileSection, depth int)
	gen = func(cur []filesection.FileSection, depth int) {
		if len(cur) > 0 {
			layouts = append(layouts, append([]filesection.FileSection(nil), cur...))
		}
		if depth == 3 {
			return
		}
		for _, l := range lens {
			for _, pad := range []bool{false, true} {
				gen(append(cur, filesection.FileSection{Length: l, Padding: pad}), depth+1)
			}
		}
	}
	gen(nil, 0)
	for _, data := range layouts {
		var total uint32
		var want []bool // want[i]: byte i of the piece is real data
		for _, s := range data {
			for k := int64(0); k < s.Length; k++ {
				want = append(want, !s.Padding)
			}
			total += uint32(s.Length)
		}
		p := Piece{Length: total, Data: filesection.Piece(data)}
		blocks := p.calculateBlocks(bs)
		got := make([]bool, len(want))
		var lastEnd uint32
		for _, b := range blocks {
			if b.Length == 0 || b.Length > bs || b.Begin < lastEnd || uint64(b.Begin)+uint64(b.Length) > uint64(total) {
				t.Fatalf("violation reproduced: layout %+v blockSize %d: block %+v out of order, empty, too long or beyond the piece (blocks %+v)", data, bs, b, blocks)
			}
			lastEnd = b.Begin + b.Length
			for i := b.Begin; i < b.Begin+b.Length; i++ {
				if !want[i] {
					t.Fatalf("violation reproduced: layout %+v blockSize %d: block %+v covers padding byte %d (blocks %+v)", data, bs, b, i, blocks)
				}
				got[i] = true
			}
		}
		for i := range want {
			if want[i] && !got[i] {
				t.Fatalf("violation reproduced: layout %+v blockSize %d: data byte %d is in no block (blocks %+v)", data, bs, i, blocks)
			}
		}
	}
}
