// rainvc:pkg torrent
package torrent

// Replay adapter for (*torrent).stop#noips: after a stop no address is remembered as
// connected. History: a peer is dialed and its handshake is still in flight when the torrent
// is stopped; after the next start the same peer must be dialed again.
// FAILS when the real code violates the clause.

import (
	"net"
	"os"
	"sync/atomic"
	"testing"
	"time"
)

func TestRainvcReplay(t *testing.T) {
	ln, err := net.Listen("tcp4", "127.0.0.1:0")
	if err != nil {
		t.Skip(err)
	}
	var accepted int32
	var conns []net.Conn
	done := make(chan struct{})
	go func() {
		defer close(done)
		for {
			c, err := ln.Accept()
			if err != nil {
				return
			}
			conns = append(conns, c) // never answers the handshake
			atomic.AddInt32(&accepted, 1)
		}
	}()
	defer func() {
		ln.Close()
		<-done
		for _, c := range conns {
			c.Close()
		}
		time.Sleep(300 * time.Millisecond)
	}()

	s := newTestSession(t)
	s.config.TrackerStopTimeout = 100 * time.Millisecond
	f, err := os.Open(torrentFile)
	if err != nil {
		t.Fatal(err)
	}
	defer f.Close()
	tor, err := s.AddTorrent(f, &AddTorrentOptions{Stopped: true})
	if err != nil {
		t.Fatal(err)
	}
	tor.torrent.trackers = nil
	addr := ln.Addr().(*net.TCPAddr)
	waitFor := func(what string, cond func() bool) {
		deadline := time.Now().Add(10 * time.Second)
		for !cond() {
			if time.Now().After(deadline) {
				t.Fatalf("timeout waiting for %s (status %v)", what, tor.Stats().Status)
			}
			time.Sleep(10 * time.Millisecond)
		}
	}
	if err := tor.Start(); err != nil {
		t.Fatal(err)
	}
	waitFor("download state", func() bool { return tor.Stats().Status == Downloading })
	_ = tor.AddPeer(addr.String())
	waitFor("first dial", func() bool { return atomic.LoadInt32(&accepted) >= 1 })
	if err := tor.Stop(); err != nil {
		t.Fatal(err)
	}
	waitFor("stopped", func() bool { return tor.Stats().Status == Stopped })
	if err := tor.Start(); err != nil {
		t.Fatal(err)
	}
	waitFor("download state", func() bool { return tor.Stats().Status == Downloading })
	_ = tor.AddPeer(addr.String())
	deadline := time.Now().Add(2 * time.Second)
	for atomic.LoadInt32(&accepted) < 2 && time.Now().Before(deadline) {
		time.Sleep(10 * time.Millisecond)
	}
	n := atomic.LoadInt32(&accepted)
	_ = tor.Stop()
	waitFor("stopped", func() bool { return tor.Stats().Status == Stopped })
	if n < 2 {
		t.Fatalf("violation reproduced: %v was being handshaken when the torrent stopped; after the restart it is never dialed again (still remembered as connected)", addr)
	}
}
