// rainvc:pkg internal/piecepicker
package piecepicker

// Replay adapter for (*PiecePicker).pickEndgame#eligible: the piece picked in
// end-game mode has fewer requests than the duplicate-download limit, also when
// some of its downloaders are choked or snubbed.
// FAILS when the real code violates the clause.

import (
	"testing"

	"github.com/cenkalti/rain/v2/internal/bitfield"
	"github.com/cenkalti/rain/v2/internal/filesection"
	"github.com/cenkalti/rain/v2/internal/peer"
	"github.com/cenkalti/rain/v2/internal/piece"
)

func TestRainvcReplay(t *testing.T) {
	const n = 2
	const limit = 2
	pieces := make([]piece.Piece, n)
	for i := range pieces {
		pieces[i] = piece.Piece{Index: uint32(i), Length: 16384, Data: filesection.Piece{{Name: "f", Offset: int64(i) * 16384, Length: 16384}}}
	}
	pp := New(pieces, limit, nil, false)
	var peers []*peer.Peer
	for i := 0; i < 4; i++ {
		pe := &peer.Peer{ID: [20]byte{byte(i + 1)}, Bitfield: bitfield.New(n)}
		peers = append(peers, pe)
		for j := 0; j < n; j++ {
			pp.HandleHave(pe, uint32(j))
		}
	}
	pieces[1].Done = true
	// piece 0 is requested from `limit` peers, both of them choked in the middle of the download
	for i := 0; i < limit; i++ {
		pp.pieces[0].Requested.Add(peers[i])
		pp.HandleChoke(peers[i], 0)
	}
	pp.endgame = true
	got := pp.pickEndgame(peers[3])
	if got != nil && got.Requested.Len() >= limit {
		t.Fatalf("violation reproduced: end game picked piece %d which already has %d requests (limit %d)", got.Index, got.Requested.Len(), limit)
	}
}
